(* C19 -- /proc/cpuinfo: the "cpu MHz" scan, cpu_count_logical fallbacks, cpu_count_cores *)
From PV Require Import C19.Lib C19.ProofsStat C19.ProofsCpu.

(* ------------------------------------------------------------ generic *)
Lemma prefixb_app_sepb p sep : contains sep p = false -> forall k X,
  prefixb p (k ++ sep :: X) = prefixb p k.
Proof.
  induction p as [|x p IH]; intros Hp k X; [reflexivity|].
  rewrite contains_cons in Hp. apply orb_false_iff in Hp as [Hx Hp].
  destruct k as [|y k]; cbn [app prefixb].
  - rewrite Z.eqb_sym, Hx. reflexivity.
  - destruct (x =? y); cbn [andb]; [now apply IH|reflexivity].
Qed.

Lemma lower_app a b : lower (a ++ b) = lower a ++ lower b.
Proof. apply map_app. Qed.

Lemma lower_digits n : all_digits n = true -> lower n = n.
Proof.
  induction n as [|c n IH]; [reflexivity|]. cbn [all_digits forallb]. intros H.
  apply andb_true_iff in H as [Hc Hn]. unfold lower. cbn [map]. fold (lower n). rewrite (IH Hn).
  unfold lower_byte. assert ((65 <=? c) && (c <=? 90) = false) as -> by (unfold is_digit in Hc; lia). reflexivity.
Qed.

Lemma firstn_len_app {A} (t r : list A) : firstn (length t) (t ++ r) = t.
Proof. induction t as [|x t IH]; [reflexivity|]. cbn [length app firstn]. now rewrite IH. Qed.
Lemma skipn_len_app {A} (t r : list A) : skipn (length t) (t ++ r) = r.
Proof. induction t as [|x t IH]; [reflexivity|]. cbn [length app skipn]. exact IH. Qed.

Lemma skipn_S_len_app {A} (t : list A) x r : skipn (S (length t)) (t ++ x :: r) = r.
Proof. induction t as [|y t IH]; [reflexivity|]. cbn [length app]. exact IH. Qed.

Lemma split1_app sep t R : contains sep t = false -> split1 sep (t ++ sep :: R) = [t; R].
Proof.
  intros H. unfold split1. rewrite find_byte_app by exact H. now rewrite firstn_len_app, skipn_S_len_app.
Qed.

(* ------------------------------------------------------------ shape of a printed line *)
Definition ctail (l : cline) : bytes := ctabs l ++ 58 :: 32 :: cvalue l ++ [10].
Lemma cline_shape l : k_cline l = ckey l ++ 9 :: ctail l.
Proof. reflexivity. Qed.

Lemma lower_cline l : lower (k_cline l) = lower (ckey l) ++ 9 :: lower (ctail l).
Proof. rewrite cline_shape, lower_app. reflexivity. Qed.

Lemma prefix_lower_cline p l : contains 9 p = false ->
  prefixb p (lower (k_cline l)) = prefixb p (lower (ckey l)).
Proof. intros H. rewrite lower_cline. now apply prefixb_app_sepb. Qed.

Lemma key_char_no_nl k : forallb key_char k = true -> contains 10 k = false.
Proof.
  induction k as [|c k IH]; auto. cbn [forallb]. intros H. apply andb_true_iff in H as [Hc Hk].
  rewrite contains_cons, (IH Hk). unfold key_char in Hc. lia.
Qed.
Lemma value_no_nl v : value_ok v = true -> contains 10 v = false.
Proof.
  unfold value_ok. induction v as [|c v IH]; auto. cbn [forallb]. intros H. apply andb_true_iff in H as [Hc Hv].
  rewrite contains_cons, (IH Hv). lia.
Qed.

Lemma cline_ok_other k t v : cline_ok (COther k t v) = true ->
  key_ok k = true /\ value_ok v = true /\ prefixb (bs "cpu mhz") (lower k) = false /\
  prefixb (bs "physical id") (lower k) = false /\ prefixb (bs "cpu cores") (lower k) = false /\
  prefixb (bs "processor") k = false.
Proof.
  cbn [cline_ok]. intros H. apply andb_true_iff in H as [H H5]. apply andb_true_iff in H as [H H4].
  apply andb_true_iff in H as [H H3]. apply andb_true_iff in H as [H H6]. apply andb_true_iff in H as [H1 H2].
  apply negb_true_iff in H3, H4, H5, H6. repeat split; assumption.
Qed.

Lemma key_ok_inv k : key_ok k = true -> exists c r, k = c :: r /\ is_ws c = false /\ forallb key_char k = true.
Proof.
  destruct k as [|c r]; [discriminate|]. cbn [key_ok]. intros H. apply andb_true_iff in H as [Hc Hk].
  exists c, r. split; [reflexivity|]. split; [|exact Hk].
  cbn [forallb] in Hk. apply andb_true_iff in Hk as [Hk _]. unfold key_char in Hk. unfold is_ws. lia.
Qed.

Lemma ckey_no_nl l : cline_ok l = true -> contains 10 (ckey l) = false.
Proof.
  destruct l; try reflexivity. intros H. apply cline_ok_other in H as [H _].
  apply key_ok_inv in H as [c [r [-> [_ H]]]]. now apply key_char_no_nl.
Qed.
Lemma cvalue_no_nl l : cline_ok l = true -> contains 10 (cvalue l) = false.
Proof.
  destruct l; cbn [cvalue]; intros H; try (now apply dec_no_nl).
  - cbn [cline_ok] in H. apply andb_true_iff in H as [H1 H2]. rewrite contains_app, contains_cons, (dec_no_nl _ H1), (dec_no_nl _ H2). reflexivity.
  - apply cline_ok_other in H as [_ [H _]]. now apply value_no_nl.
Qed.

Lemma cline_body l : cline_ok l = true ->
  exists body, k_cline l = body ++ [10] /\ contains 10 body = false.
Proof.
  intros H. exists (ckey l ++ 9 :: ctabs l ++ 58 :: 32 :: cvalue l). split.
  - unfold k_cline. rewrite <- app_assoc. cbn [app]. rewrite <- app_assoc. reflexivity.
  - rewrite contains_app, contains_cons, contains_app, !contains_cons, (ckey_no_nl l H), (cvalue_no_nl l H).
    destruct l as [| | | | |k [|] v]; reflexivity.
Qed.

Definition block_lines (b : cblock) : list bytes := map k_cline b ++ [[10]].

Lemma lines_block b rest : forallb cline_ok b = true ->
  lines_keep (concat (map k_cline b) ++ 10 :: rest) = map k_cline b ++ [10] :: lines_keep rest.
Proof.
  induction b as [|l b IH]; intros H; [reflexivity|].
  cbn [forallb] in H. apply andb_true_iff in H as [Hl Hb].
  cbn [map concat]. destruct (cline_body l Hl) as [body [E Hbody]]. rewrite E.
  rewrite <- !app_assoc. cbn [app]. rewrite lines_keep_line by exact Hbody.
  rewrite IH by exact Hb. reflexivity.
Qed.

Lemma lines_cpuinfo blocks : cpuinfo_ok blocks = true ->
  lines_keep (k_cpuinfo blocks) = flat_map block_lines blocks.
Proof.
  induction blocks as [|b blocks IH]; intros H; [reflexivity|].
  unfold cpuinfo_ok in H. cbn [forallb] in H. apply andb_true_iff in H as [Hb Hbs].
  unfold k_cpuinfo. cbn [map concat flat_map]. fold (k_cpuinfo blocks). unfold k_cblock.
  rewrite <- app_assoc. cbn [app]. rewrite lines_block by exact Hb. rewrite IH by exact Hbs.
  unfold block_lines. rewrite <- app_assoc. reflexivity.
Qed.

(* ------------------------------------------------------------ the "cpu MHz" scan *)
Lemma digits_us_stop ip : forall r pd acc, all_digits ip = true ->
  digits_us 10 (ip ++ 46 :: r) pd acc = None.
Proof.
  induction ip as [|c ip IH]; intros r pd acc H.
  - cbn [app digits_us]. change (digit_val 10 46) with (@None Z). reflexivity.
  - cbn [all_digits forallb] in H. apply andb_true_iff in H as [Hc Hi].
    cbn [app digits_us]. rewrite (digit_val_10 _ Hc). now apply IH.
Qed.

Lemma digits_no_dot n : all_digits n = true -> contains 46 n = false.
Proof.
  induction n as [|c n IH]; auto. cbn [all_digits forallb]. intros H.
  apply andb_true_iff in H as [Hc Hn]. rewrite contains_cons. fold (all_digits n) in Hn.
  rewrite (IH Hn). unfold is_digit in Hc. lia.
Qed.

Lemma py_float_mhz ip fp : is_dec ip = true -> is_dec fp = true ->
  py_float (32 :: (ip ++ 46 :: fp) ++ [10]) = Val (mhz_value ip fp).
Proof.
  intros Hi Hf. destruct (is_dec_tok ip Hi) as [Hi1 Hi2]. destruct (is_dec_tok fp Hf) as [Hf1 Hf2].
  assert (Hdi : all_digits ip = true) by (destruct ip; [discriminate|exact Hi]).
  assert (Hdf : all_digits fp = true) by (destruct fp; [discriminate|exact Hf]).
  assert (S : strip (32 :: (ip ++ 46 :: fp) ++ [10]) = ip ++ 46 :: fp).
  { unfold strip. cbn [lstrip]. change (is_ws 32) with true. cbv iota. fold (strip ((ip ++ 46 :: fp) ++ [10])).
    apply strip_app_nl.
    - destruct ip; [congruence|discriminate].
    - rewrite no_ws_app. cbn [no_ws forallb]. fold (no_ws fp). now rewrite Hi2, Hf2. }
  destruct ip as [|c ip']; [congruence|].
  assert (Hc : is_digit c = true) by (cbn [all_digits forallb] in Hdi; now apply andb_true_iff in Hdi as [Hc _]).
  unfold py_float.
  assert (P : parse_int (32 :: ((c :: ip') ++ 46 :: fp) ++ [10]) = None).
  { unfold parse_int, parse_signed. rewrite S. cbn [app].
    assert (c =? 45 = false) as -> by (unfold is_digit in Hc; lia).
    assert (c =? 43 = false) as -> by (unfold is_digit in Hc; lia).
    change (c :: ip' ++ 46 :: fp) with ((c :: ip') ++ 46 :: fp). now apply digits_us_stop. }
  rewrite P.
  assert (D : parse_decimal (32 :: ((c :: ip') ++ 46 :: fp) ++ [10]) = Some (mhz_value (c :: ip') fp)).
  { unfold parse_decimal. rewrite S. cbn [app].
    assert (c =? 45 = false) as -> by (unfold is_digit in Hc; lia).
    assert (c =? 43 = false) as -> by (unfold is_digit in Hc; lia).
    change (c :: ip' ++ 46 :: fp) with ((c :: ip') ++ 46 :: fp).
    rewrite split_on_app by (now apply digits_no_dot). rewrite split_on_nosep by (now apply digits_no_dot).
    rewrite Hdi, Hdf. cbn [andb negb]. unfold mhz_value.
    destruct (10 ^ Z.of_nat (length fp)) eqn:E; try reflexivity;
      pose proof (Z.pow_pos_nonneg 10 (Z.of_nat (length fp)) ltac:(lia) ltac:(lia)); lia. }
  now rewrite D.
Qed.

Definition line_mhz (l : cline) : list Q := match l with CMhz ip fp => [mhz_value ip fp] | _ => [] end.

Lemma freq_line l rest : cline_ok l = true ->
  cpuinfo_freqs_lines (k_cline l :: rest) = do qs <- cpuinfo_freqs_lines rest; Val (line_mhz l ++ qs).
Proof.
  intros H. cbn [cpuinfo_freqs_lines]. unfold s_cpu_mhz. rewrite prefix_lower_cline by reflexivity.
  destruct l as [n|ip fp|n|n|n|k t v]; cbn [ckey line_mhz app];
    try (change (prefixb (bs "cpu mhz") (lower _)) with false; cbv iota;
         destruct (cpuinfo_freqs_lines rest); reflexivity).
  - change (prefixb (bs "cpu mhz") (lower (bs "cpu MHz"))) with true. cbv iota.
    cbn [cline_ok] in H. apply andb_true_iff in H as [Hi Hf].
    change (k_cline (CMhz ip fp)) with ((bs "cpu MHz" ++ [9; 9]) ++ 58 :: (32 :: (ip ++ 46 :: fp) ++ [10])).
    rewrite split1_app by reflexivity. rewrite py_float_mhz by assumption. reflexivity.
  - apply cline_ok_other in H as [_ [_ [H _]]]. rewrite H.
    destruct (cpuinfo_freqs_lines rest); reflexivity.
Qed.

Lemma freq_lines_block b rest : forallb cline_ok b = true ->
  cpuinfo_freqs_lines (block_lines b ++ rest) =
  do qs <- cpuinfo_freqs_lines rest; Val (flat_map line_mhz b ++ qs).
Proof.
  induction b as [|l b IH]; intros H.
  - cbn. destruct (cpuinfo_freqs_lines rest); reflexivity.
  - cbn [forallb] in H. apply andb_true_iff in H as [Hl Hb].
    unfold block_lines. cbn [map app flat_map]. fold (block_lines b).
    rewrite freq_line by exact Hl. rewrite IH by exact Hb.
    destruct (cpuinfo_freqs_lines rest); cbn [obind]; [|reflexivity|reflexivity].
    now rewrite app_assoc.
Qed.

Lemma spec_mhz_cons b blocks : spec_mhz_list (b :: blocks) = flat_map line_mhz b ++ spec_mhz_list blocks.
Proof. unfold spec_mhz_list, all_lines. cbn [concat]. now rewrite flat_map_app. Qed.

(* every printed /proc/cpuinfo: the scan yields the "cpu MHz" values, in file order *)
Theorem cpuinfo_freqs_spec blocks : cpuinfo_ok blocks = true ->
  cpuinfo_freqs (FC (k_cpuinfo blocks)) = Val (spec_mhz_list blocks).
Proof.
  intros H. unfold cpuinfo_freqs. cbn [read_req obind]. rewrite lines_cpuinfo by exact H.
  induction blocks as [|b blocks IH]; [reflexivity|].
  unfold cpuinfo_ok in H. cbn [forallb] in H. apply andb_true_iff in H as [Hb Hbs].
  cbn [flat_map]. rewrite freq_lines_block by exact Hb. rewrite IH by exact Hbs. cbn [obind].
  now rewrite spec_mhz_cons.
Qed.

(* ------------------------------------------------------------ cpu_freq over a printed cpuinfo *)
Theorem cpu_freq_cpuinfo_impl_printed blocks ps : cpuinfo_ok blocks = true ->
  cpu_freq_platform false (FC (k_cpuinfo blocks)) ps =
  Val (map (fun x => {| fq_cur := x; fq_min := 0; fq_max := 0 |}) (spec_mhz_list blocks)).
Proof. intros H. apply cpu_freq_cpuinfo_impl. now apply cpuinfo_freqs_spec. Qed.

Theorem cpu_freq_percpu_printed blocks cpus : cpuinfo_ok blocks = true ->
  length (spec_mhz_list blocks) <> length cpus -> forallb kcpu_ok cpus = true ->
  cpu_freq_platform true (FC (k_cpuinfo blocks)) (map cpu_policy cpus) = Val (map spec_freq cpus).
Proof. intros H Hl Hc. apply (cpu_freq_percpu _ (spec_mhz_list blocks)); auto. now apply cpuinfo_freqs_spec. Qed.

Lemma zip_length ms : forall cs r, zip_cpuinfo_cur ms cs = Some r -> length ms = length cs.
Proof.
  induction ms as [|m ms IH]; intros [|c cs] r H; cbn [zip_cpuinfo_cur] in H; try discriminate; [reflexivity|].
  destruct c as [cur mn mx|]; [|discriminate].
  destruct (zip_cpuinfo_cur ms cs) as [r'|] eqn:E; [|discriminate]. cbn [length]. f_equal. now apply (IH cs r').
Qed.

Lemma policies_from_cpuinfo ms : forall cs r, forallb kcpu_ok cs = true -> zip_cpuinfo_cur ms cs = Some r ->
  policies_loop (Some ms) (map cpu_policy cs) = Val r.
Proof.
  induction ms as [|m ms IH]; intros [|c cs] r Hok H; cbn [zip_cpuinfo_cur] in H; try discriminate.
  - inversion H. reflexivity.
  - destruct c as [cur mn mx|]; [|discriminate].
    destruct (zip_cpuinfo_cur ms cs) as [r'|] eqn:E; [|discriminate]. inversion H; subst r. clear H.
    cbn [forallb] in Hok. apply andb_true_iff in Hok as [Hc Hcs].
    cbn [kcpu_ok] in Hc. apply andb_true_iff in Hc as [Hc Hmx]. apply andb_true_iff in Hc as [_ Hmn].
    cbn [map policies_loop]. unfold policy_freq. cbn [cpu_policy p_max p_min].
    rewrite !khz_file_dec by assumption. cbn [obind]. rewrite (IH cs r' Hcs E). reflexivity.
Qed.

(* as many "cpu MHz" values as policies, all CPUs online: current from cpuinfo, min/max from the policy files *)
Theorem cpu_freq_from_cpuinfo blocks cpus r : cpuinfo_ok blocks = true -> forallb kcpu_ok cpus = true ->
  zip_cpuinfo_cur (spec_mhz_list blocks) cpus = Some r ->
  cpu_freq_platform true (FC (k_cpuinfo blocks)) (map cpu_policy cpus) = Val r.
Proof.
  intros H Hc Hz. unfold cpu_freq_platform. rewrite cpuinfo_freqs_spec by exact H. cbn [obind].
  rewrite map_length, (zip_length _ _ _ Hz), Nat.eqb_refl. now apply policies_from_cpuinfo.
Qed.

(* ... and a "%u.%03u" value survives the kHz truncation exactly *)
Theorem via_khz_exact ip fp : is_dec ip = true -> is_dec fp = true -> length fp = 3%nat ->
  (via_khz (mhz_value ip fp) == mhz_value ip fp)%Q.
Proof.
  intros Hi Hf Hl. unfold mhz_value. rewrite Hl. change (10 ^ Z.of_nat 3) with 1000.
  apply cpuinfo_cur_exact.
  assert (0 <= dec_val ip) by (apply dec_val_nonneg; destruct ip; [discriminate|exact Hi]).
  assert (0 <= dec_val fp) by (apply dec_val_nonneg; destruct fp; [discriminate|exact Hf]). lia.
Qed.

(* ------------------------------------------------------------ cpu_count_logical *)
Definition is_proc (l : cline) : bool := match l with CProcessor _ => true | _ => false end.

Lemma proc_line l : cline_ok l = true -> prefixb s_processor (k_cline l) = is_proc l.
Proof.
  intros H. unfold s_processor. rewrite cline_shape, prefixb_app_sepb by reflexivity.
  destruct l as [n|ip fp|n|n|n|k t v]; try reflexivity.
  apply cline_ok_other in H as [_ [_ [_ [_ [_ H]]]]]. exact H.
Qed.

Definition pf (l : bytes) : bool := prefixb s_processor l.

Lemma count_block b rest : forallb cline_ok b = true ->
  count_where pf (block_lines b ++ rest) = Z.of_nat (length (filter is_proc b)) + count_where pf rest.
Proof.
  induction b as [|l b IH]; intros H; [reflexivity|].
  cbn [forallb] in H. apply andb_true_iff in H as [Hl Hb].
  unfold block_lines. cbn [map app count_where]. fold (block_lines b). rewrite (IH Hb).
  unfold pf at 1. rewrite proc_line by exact Hl. cbn [filter].
  destruct (is_proc l); cbn [length]; lia.
Qed.

Lemma count_blocks blocks : cpuinfo_ok blocks = true ->
  count_where pf (flat_map block_lines blocks) = n_processors blocks.
Proof.
  induction blocks as [|b blocks IH]; intros H; [reflexivity|].
  unfold cpuinfo_ok in H. cbn [forallb] in H. apply andb_true_iff in H as [Hb Hbs].
  cbn [flat_map]. rewrite count_block by exact Hb. rewrite (IH Hbs).
  unfold n_processors, all_lines. cbn [concat]. rewrite filter_app, app_length. fold is_proc. lia.
Qed.

(* /proc/stat: lines "cpuN ..." *)
Lemma key_no_space l : statline_ok l = true -> contains 32 (key_of l) = false.
Proof.
  destruct l as [lab rest|t rest|n|n|t rest|k rest]; cbn [statline_ok key_of]; intros H; try reflexivity.
  - apply andb_true_iff in H as [H _]. rewrite contains_app.
    rewrite (no_ws_contains 32 lab eq_refl (all_digits_no_ws _ H)). reflexivity.
  - apply andb_true_iff in H as [H _]. unfold other_key_ok in H.
    repeat (apply andb_true_iff in H as [H _]).
    clear -H. induction k as [|c k IH]; auto. cbn [forallb] in H. apply andb_true_iff in H as [Hc Hk].
    rewrite contains_cons, (IH Hk). unfold is_lower_dig_us, is_lower, is_digit in Hc. lia.
Qed.

Lemma cpuN_statline l : statline_ok l = true ->
  is_cpuN_line (k_statline l) = match l with SCpu (_ :: _) _ => true | _ => false end.
Proof.
  intros H. unfold is_cpuN_line. rewrite line_shape, split_on_app by (now apply key_no_space). cbn [hd].
  destruct l as [lab rest|t rest|n|n|t rest|k rest]; cbn [key_of]; try reflexivity.
  - destruct lab as [|d lab]; [reflexivity|]. cbn [statline_ok] in H. apply andb_true_iff in H as [H _].
    cbn [all_digits forallb] in H. apply andb_true_iff in H as [H _]. exact H.
  - cbn [statline_ok] in H. apply andb_true_iff in H as [H _]. unfold other_key_ok in H.
    do 5 (apply andb_true_iff in H as [H _]). apply andb_true_iff in H as [_ H]. apply negb_true_iff in H.
    exact H.
Qed.

Lemma count_stat ls : forallb statline_ok ls = true ->
  count_where is_cpuN_line (map k_statline ls) = n_cpu_lines ls.
Proof.
  induction ls as [|l ls IH]; intros H; [reflexivity|].
  cbn [forallb] in H. apply andb_true_iff in H as [Hl Hls].
  cbn [map count_where n_cpu_lines fold_right]. fold (n_cpu_lines ls).
  rewrite cpuN_statline by exact Hl. rewrite (IH Hls).
  destruct l as [[|d lab] rest| | | | |]; lia.
Qed.

(* sysconf, else the "processor" lines of every printed cpuinfo (ARM "Processor" model line included),
   else the cpuN lines of every printed /proc/stat, else None *)
Theorem cpu_count_logical_spec sysconf blocks stat :
  cpuinfo_ok blocks = true -> forallb statline_ok stat = true ->
  cpu_count_logical sysconf (FC (k_cpuinfo blocks)) (FC (k_stat stat)) = Val (spec_logical sysconf blocks stat).
Proof.
  intros Hc Hs. unfold cpu_count_logical, cpu_count_logical_at, spec_logical. destruct sysconf as [n|]; [reflexivity|].
  cbn [read_req obind]. rewrite lines_cpuinfo by exact Hc.
  change (fun l : bytes => prefixb s_processor l) with pf. rewrite count_blocks by exact Hc.
  destruct (n_processors blocks =? 0); [|reflexivity].
  rewrite lines_keep_k_stat by exact Hs. now rewrite count_stat.
Qed.

(* the code before commit d196a16 counted the ARM (< 3.8) model line "Processor : ARMv7 ..." as a CPU *)
Definition arm_witness : list cblock :=
  [[COther (bs "Processor") false (bs "ARMv7 Processor rev 4 (v7l)"); CProcessor (bs "0"); COther (bs "BogoMIPS") false (bs "38.40")];
   [CProcessor (bs "1"); COther (bs "BogoMIPS") false (bs "38.40")];
   [COther (bs "Hardware") false (bs "BCM2835")]].
Theorem cpu_count_arm_header_refuted :
  exists blocks, cpuinfo_ok blocks = true /\ n_processors blocks = 2 /\
    cpu_count_logical_at true None (FC (k_cpuinfo blocks)) (FC []) = Val (Some 3) /\
    cpu_count_logical None (FC (k_cpuinfo blocks)) (FC []) = Val (Some 2).
Proof. exists arm_witness. repeat split. Qed.

(* ------------------------------------------------------------ cpu_count_cores *)
(* method 1: topology lists *)
Lemma mapM_present texts :
  mapM read_req (map (to_fres k_text) (map Present texts)) = Val (map k_text texts).
Proof. induction texts as [|t ts IH]; [reflexivity|]. cbn [map mapM to_fres read_req obind]. now rewrite IH. Qed.

Lemma strip_texts texts : forallb text_ok texts = true -> map strip (map k_text texts) = texts.
Proof.
  induction texts as [|t ts IH]; [reflexivity|]. cbn [forallb]. intros H. apply andb_true_iff in H as [Ht Hts].
  cbn [map]. now rewrite strip_text, IH.
Qed.

Lemma distinct_in l x : In x (distinct l) <-> In x l.
Proof.
  induction l as [|y l IH]; [reflexivity|]. cbn [distinct].
  destruct (existsb (beqb y) l) eqn:E.
  - rewrite IH. split; [now right|]. intros [<-|H]; [|exact H].
    apply existsb_exists in E as [z [Hz Hyz]]. apply beqb_eq in Hyz. now subst.
  - cbn [In]. now rewrite IH.
Qed.
Lemma distinct_nodup l : NoDup (distinct l).
Proof.
  induction l as [|y l IH]; [constructor|]. cbn [distinct].
  destruct (existsb (beqb y) l) eqn:E; [exact IH|]. constructor; [|exact IH].
  rewrite distinct_in. intros Hin. assert (existsb (beqb y) l = true); [|congruence].
  apply existsb_exists. exists y. split; [exact Hin|apply beqb_refl].
Qed.
Lemma distinct_nonempty l : l <> [] -> distinct l <> [].
Proof.
  destruct l as [|x l]; [congruence|]. intros _ H.
  assert (In x (distinct (x :: l))) by (apply distinct_in; now left). rewrite H in H0. destruct H0.
Qed.

(* the number of distinct sibling sets among the core_cpus_list / thread_siblings_list files *)
Theorem cpu_count_cores_lists texts cpuinfo : texts <> [] -> forallb text_ok texts = true ->
  cpu_count_cores (map (to_fres k_text) (map Present texts)) cpuinfo = Val (Some (Z.of_nat (length (distinct texts))))
  /\ NoDup (distinct texts) /\ (forall x, In x (distinct texts) <-> In x texts).
Proof.
  intros Hne Hok. split; [|split; [apply distinct_nodup|apply distinct_in]].
  unfold cpu_count_cores. rewrite mapM_present. cbn [obind]. rewrite strip_texts by exact Hok.
  pose proof (distinct_nonempty texts Hne) as Hd.
  destruct (distinct texts) as [|x d]; [congruence|]. cbn [length].
  destruct (Z.eqb_spec (Z.of_nat (S (length d))) 0) as [E|_]; [|reflexivity].
  rewrite Nat2Z.inj_succ in E. pose proof (Nat2Z.is_nonneg (length d)). lia.
Qed.

(* method 2: physical id -> cpu cores *)
Lemma strip_cline l : cline_ok l = true ->
  strip (k_cline l) = ckey l ++ 9 :: ctabs l ++ 58 :: rstrip (32 :: cvalue l ++ [10]).
Proof.
  intros H. unfold strip.
  assert (L : lstrip (k_cline l) = k_cline l).
  { destruct l as [n|ip fp|n|n|n|k t v]; try reflexivity.
    apply cline_ok_other in H as [H _]. apply key_ok_inv in H as [c [r [-> [Hc _]]]].
    unfold k_cline. cbn [ckey app]. now apply lstrip_nows. }
  rewrite L. unfold k_cline.
  change (ckey l ++ 9 :: ctabs l ++ 58 :: 32 :: cvalue l ++ [10])
    with (ckey l ++ (9 :: ctabs l) ++ 58 :: (32 :: cvalue l ++ [10])).
  rewrite app_assoc, rstrip_keep by reflexivity. rewrite <- app_assoc. reflexivity.
Qed.

Lemma lower_strip_cline l : cline_ok l = true ->
  exists Z, lower (strip (k_cline l)) = lower (ckey l) ++ 9 :: Z.
Proof. intros H. rewrite strip_cline by exact H. rewrite lower_app. cbn [lower map]. eauto. Qed.

Lemma ckey_nonempty l : cline_ok l = true -> ckey l <> [].
Proof.
  destruct l; try discriminate. intros H. apply cline_ok_other in H as [H _].
  apply key_ok_inv in H as [c [r [-> _]]]. discriminate.
Qed.

Definition upd (st : option Z * option Z) (l : cline) : option Z * option Z :=
  match l with
  | CPhysId n => (Some (dec_val n), snd st)
  | CCores n => (fst st, Some (dec_val n))
  | _ => st
  end.

Lemma rstrip_value n : is_dec n = true -> rstrip (32 :: n ++ [10]) = 32 :: n.
Proof.
  intros H. destruct (is_dec_tok n H) as [H1 H2].
  change (32 :: n ++ [10]) with ((32 :: n) ++ [10]). rewrite rstrip_snoc. change (is_ws 10) with true. cbv iota.
  change (32 :: n) with ([32] ++ n). now apply rstrip_no_ws_tail.
Qed.

Lemma py_int_sp n : is_dec n = true -> py_int (32 :: n) = Val (dec_val n).
Proof.
  intros H. unfold py_int. rewrite (parse_int_same_strip (32 :: n) n); [now rewrite parse_int_dec|].
  unfold strip. cbn [lstrip]. reflexivity.
Qed.

Lemma digits_no_tab n : all_digits n = true -> contains 9 n = false.
Proof. intros H. apply no_ws_contains; [reflexivity|now apply all_digits_no_ws]. Qed.

Lemma cores_other_line l rest m p c : cline_ok l = true ->
  match l with CPhysId _ | CCores _ => False | _ => True end ->
  cores_lines (k_cline l :: rest) m p c = cores_lines rest m p c.
Proof.
  intros H Hk. cbn [cores_lines]. destruct (lower_strip_cline l H) as [Z E]. rewrite E.
  destruct (lower (ckey l) ++ 9 :: Z) as [|x y] eqn:E2.
  { apply app_eq_nil in E2 as [_ E2]. discriminate. }
  rewrite <- E2. unfold s_physical_id, s_cpu_cores. rewrite !prefixb_app_sepb by reflexivity.
  destruct l as [n|ip fp|n|n|n|k t v]; cbn [ckey]; try contradiction; try reflexivity.
  apply cline_ok_other in H as [_ [_ [_ [H4 [H5 _]]]]]. now rewrite H4, H5.
Qed.

Lemma skipn_len2 {A} (t : list A) a b r : skipn (length t + 2) (t ++ a :: b :: r) = r.
Proof. induction t as [|y t IH]; [reflexivity|]. cbn [length app Nat.add skipn]. exact IH. Qed.

Lemma lower_kv key n : is_dec n = true -> lower key = key ->
  lower (key ++ 9 :: 58 :: 32 :: n) = key ++ 9 :: 58 :: 32 :: n.
Proof.
  intros H Hk. assert (Hd : all_digits n = true) by (destruct n; [discriminate|exact H]).
  rewrite lower_app, Hk. change (9 :: 58 :: 32 :: n) with ([9; 58; 32] ++ n). rewrite lower_app, (lower_digits n Hd).
  reflexivity.
Qed.

Lemma cores_kv_line raw rest m p c key n :
  lower (strip raw) = key ++ 9 :: 58 :: 32 :: n -> is_dec n = true ->
  key = s_physical_id \/ key = s_cpu_cores ->
  cores_lines (raw :: rest) m p c =
  if beqb key s_physical_id then cores_lines rest m (Some (dec_val n)) c
  else cores_lines rest m p (Some (dec_val n)).
Proof.
  intros E H Hk. assert (Hd : all_digits n = true) by (destruct n; [discriminate|exact H]).
  cbn [cores_lines]. rewrite E.
  destruct (key ++ 9 :: 58 :: 32 :: n) as [|x y] eqn:E2.
  { destruct Hk as [-> | ->]; discriminate. }
  rewrite <- E2.
  assert (T : split_seq tab_colon (key ++ 9 :: 58 :: 32 :: n) = [key; 32 :: n]).
  { unfold tab_colon. apply split_seq_two.
    - destruct Hk as [-> | ->]; reflexivity.
    - rewrite contains_cons. change (9 =? 32) with false. cbn [orb]. now apply digits_no_tab. }
  rewrite T. cbv iota beta. rewrite skipn_len2, py_int_sp by exact H. cbn [obind].
  destruct Hk as [-> | ->].
  - rewrite prefixb_app. cbn [orb]. rewrite beqb_refl. reflexivity.
  - rewrite (prefixb_app s_cpu_cores). rewrite orb_true_r.
    change (beqb s_cpu_cores s_physical_id) with false. cbv iota. rewrite beqb_refl. reflexivity.
Qed.

Lemma cores_pid_line n rest m p c : is_dec n = true ->
  cores_lines (k_cline (CPhysId n) :: rest) m p c = cores_lines rest m (Some (dec_val n)) c.
Proof.
  intros H. rewrite (cores_kv_line _ rest m p c s_physical_id n); [now rewrite beqb_refl| |exact H|now left].
  rewrite strip_cline by exact H. cbn [ckey ctabs cvalue app]. rewrite rstrip_value by exact H.
  now apply lower_kv.
Qed.

Lemma cores_cc_line n rest m p c : is_dec n = true ->
  cores_lines (k_cline (CCores n) :: rest) m p c = cores_lines rest m p (Some (dec_val n)).
Proof.
  intros H. rewrite (cores_kv_line _ rest m p c s_cpu_cores n); [reflexivity| |exact H|now right].
  rewrite strip_cline by exact H. cbn [ckey ctabs cvalue app]. rewrite rstrip_value by exact H.
  now apply lower_kv.
Qed.

Lemma cores_line l rest m st : cline_ok l = true ->
  cores_lines (k_cline l :: rest) m (fst st) (snd st) = cores_lines rest m (fst (upd st l)) (snd (upd st l)).
Proof.
  intros H. destruct l as [n|ip fp|n|n|n|k t v]; cbn [upd fst snd];
    try (apply cores_other_line; [exact H|exact I]).
  - now apply cores_pid_line.
  - now apply cores_cc_line.
Qed.

Definition flush (m : list (Z * Z)) (st : option Z * option Z) : list (Z * Z) :=
  match st with (Some p, Some c) => zdict_set p c m | _ => m end.

Lemma cores_blank rest m p c : cores_lines ([10] :: rest) m p c = cores_lines rest (flush m (p, c)) None None.
Proof. cbn [cores_lines]. change (lower (strip [10])) with (@nil Z). cbv iota. unfold flush. destruct p, c; reflexivity. Qed.

Lemma cores_block b : forall rest m st, forallb cline_ok b = true ->
  cores_lines (block_lines b ++ rest) m (fst st) (snd st) =
  cores_lines rest (flush m (fold_left upd b st)) None None.
Proof.
  induction b as [|l b IH]; intros rest m st H.
  - cbn [block_lines map app fold_left]. rewrite cores_blank. now destruct st.
  - cbn [forallb] in H. apply andb_true_iff in H as [Hl Hb].
    unfold block_lines. cbn [map app fold_left]. fold (block_lines b).
    rewrite cores_line by exact Hl. now apply IH.
Qed.

Lemma zdict_pkg k v d : zdict_set k v d = pkg_set k v d.
Proof. induction d as [|[k' v'] d IH]; [reflexivity|]. cbn [zdict_set pkg_set]. now rewrite IH. Qed.

Lemma fold_upd b : forall st,
  fold_left upd b st =
  (fold_left (fun acc l => match (match l with CPhysId n => Some (dec_val n) | _ => None end) with Some v => Some v | None => acc end) b (fst st),
   fold_left (fun acc l => match (match l with CCores n => Some (dec_val n) | _ => None end) with Some v => Some v | None => acc end) b (snd st)).
Proof.
  induction b as [|l b IH]; intros [p c]; [reflexivity|]. cbn [fold_left]. rewrite IH.
  destruct l; reflexivity.
Qed.

Lemma flush_block m b :
  flush m (fold_left upd b (None, None)) = match block_pkg b with Some (p, c) => pkg_set p c m | None => m end.
Proof.
  rewrite fold_upd. unfold flush, block_pkg, last_of. cbn [fst snd].
  destruct (fold_left _ b None) as [p|]; [|reflexivity].
  destruct (fold_left _ b None) as [c|]; [|reflexivity]. apply zdict_pkg.
Qed.

Lemma cores_blocks blocks : cpuinfo_ok blocks = true -> forall m,
  cores_lines (flat_map block_lines blocks) m None None =
  Val (fold_left (fun d b => match block_pkg b with Some (p, c) => pkg_set p c d | None => d end) blocks m).
Proof.
  induction blocks as [|b blocks IH]; intros H m; [reflexivity|].
  unfold cpuinfo_ok in H. cbn [forallb] in H. apply andb_true_iff in H as [Hb Hbs].
  cbn [flat_map fold_left]. rewrite (cores_block b _ m (None, None) Hb). rewrite flush_block. now apply IH.
Qed.

(* no topology list file: for every printed cpuinfo, the sum over packages of "cpu cores" (None when 0) *)
Theorem cpu_count_cores_cpuinfo blocks : cpuinfo_ok blocks = true ->
  cpu_count_cores [] (FC (k_cpuinfo blocks)) =
  Val (if spec_cores blocks =? 0 then None else Some (spec_cores blocks)).
Proof.
  intros H. unfold cpu_count_cores. cbn [mapM obind map distinct length Z.of_nat Z.eqb negb read_req].
  rewrite lines_cpuinfo by exact H. rewrite cores_blocks by exact H. reflexivity.
Qed.

Example cpuinfo_example :
  let blocks := [[CProcessor (bs "0"); COther (bs "model name") false (bs "Some CPU @ 2.40GHz"); CMhz (bs "2400") (bs "000");
                  CPhysId (bs "0"); CCoreId (bs "0"); CCores (bs "2")];
                 [CProcessor (bs "1"); CMhz (bs "800") (bs "123"); CPhysId (bs "0"); CCoreId (bs "1"); CCores (bs "2")]] in
  cpuinfo_ok blocks = true /\ no_processor_like blocks = true /\ n_processors blocks = 2 /\ spec_cores blocks = 2 /\
  spec_mhz_list blocks = [Qmake 2400000 1000; Qmake 800123 1000].
Proof. cbv zeta. repeat split. Qed.
