(* The body of sensors_battery() after `root = ...`, translated from the CURRENT source (Gen/C19_Tables.v), run through
   the interpreter of PyGen.v, equals the model's battery_of for ALL inputs.  Method: the multi_bcat results are entries
   of a first-order table, so they can be generalised to arbitrary [option mval] BEFORE anything is evaluated; then case
   analysis in program order on the unevaluated goal, each leaf normalised once. *)
From Coq Require Import String Lia.
From PV Require Import C19.PyGen Gen.C19_Tables C19.ProofsGen.
Open Scope Z_scope.

Lemma Qtrunc_secs n p :
  Qtrunc (inject_Z n / inject_Z (Z.pos p) * inject_Z 3600) = Z.quot (n * 3600) (Z.pos p).
Proof.
  unfold Qtrunc, Qdiv, Qmult, Qinv, inject_Z; cbn [Qnum Qden].
  rewrite Z.mul_1_r, Pos.mul_1_l, Pos.mul_1_r; reflexivity.
Qed.

Definition exec_block2 := exec_block.
Lemma exec_block_app T fs l1 l2 : forall en,
  exec_block T fs (l1 ++ l2) en =
  (do c <- exec_block T fs l1 en; match c with CNext en' => exec_block2 T fs l2 en' | CRet v => Val (CRet v) end).
Proof.
  unfold exec_block2. induction l1 as [|s l1 IH]; intros en; cbn [exec_block app].
  - reflexivity.
  - destruct (exec T fs s en) as [[en'|v]|e|]; cbn [obind]; [apply IH|reflexivity..].
Qed.

Ltac norm := cbv -[exec_block2 plugged_of secs_of parse_int strip lower beqb Z.quot Z.mul Z.ltb Qmult Qdiv Qtrunc inject_Z concat repeat].
Ltac norm2 := cbv -[parse_int strip lower beqb Z.quot Z.mul Z.ltb Qmult Qdiv Qtrunc inject_Z concat repeat].
Ltac split1 n := match goal with
  | |- context [match parse_int ?c with _ => _ end] => destruct (parse_int c)
  | |- context [match ?z with Z0 => _ | Zpos _ => _ | Zneg _ => _ end] => is_var z; destruct z
  | |- context [match ?z with xH => _ | xO _ => _ | xI _ => _ end] => is_var z; destruct z
  | |- context [if beqb ?a ?b then _ else _] => destruct (beqb a b)
  | |- context [if Z.ltb ?a ?b then _ else _] => destruct (Z.ltb a b)
  end; n.
Ltac leaf := norm2; repeat (split1 ltac:(norm2)); rewrite ?Qtrunc_secs; reflexivity.

Theorem gen_battery_body_is_model :
  forall bf ac0 ac, run_body gen_multi_bcat gen_battery_body bf ac0 ac = battery_of bf ac0 ac.
Proof.
  intros [en cn pn cun ef cf tte cap st] ac0 ac.
  unfold run_body, battery_of, battery_of_at.
  match goal with |- context [mk_tbl ?m ?f ?b] =>
    let t := eval cbv -[run_multi gen_multi_bcat] in (mk_tbl m f b) in change (mk_tbl m f b) with t end.
  rewrite !gen_multi_bcat_correct.
  cbn [b_energy_now b_charge_now b_power_now b_current_now b_energy_full b_charge_full b_time_to_empty b_capacity b_status].
  generalize (multi_bcat [en; cn]) (multi_bcat [pn; cun]) (multi_bcat [ef; cf]) (multi_bcat [tte]) (multi_bcat [ac0; ac]).
  clear. intros ren rpn ref rtte ron.
  change gen_battery_body with (firstn 5 gen_battery_body ++ skipn 5 gen_battery_body).
  rewrite exec_block_app.
  Time destruct ref as [[[|f|f]|fb]|]; destruct ren as [[n|nb]|]; norm; try reflexivity.
  all: idtac "s1".
  Time all: try (destruct cap as [c| |]; norm; try reflexivity).
  Time all: repeat (split1 ltac:(norm)); try reflexivity.
  all: idtac "s2".
  Time all: destruct ron as [[[|[?|?|]|?]|?]|]; [| | | | | |destruct st as [?| |]].
  all: idtac "s3".
  Time all: destruct rpn as [[[|?|?]|?]|]; destruct rtte as [[?|?]|]; unfold exec_block2; leaf.
Qed.
