(* C19 -- cpu_freq(): per-CPU values from the cpufreq policies, mean over CPUs; cpu_count front end *)
From PV Require Import C19.Lib.

Lemma khz_file_dec ds : is_dec ds = true -> khz_file (FC (k_dec ds)) = Val (mhz (dec_val ds)).
Proof.
  intros H. unfold khz_file, k_dec, py_int. cbn [read_req obind]. rewrite parse_int_nl by exact H. reflexivity.
Qed.

Lemma policy_freq_spec c : kcpu_ok c = true -> policy_freq None (cpu_policy c) = Val (spec_freq c).
Proof.
  destruct c as [cur mn mx|]; [|reflexivity]. cbn [kcpu_ok]. intros H.
  apply andb_true_iff in H as [H Hmx]. apply andb_true_iff in H as [H Hmn]. apply andb_true_iff in H as [Hcur Hpres].
  unfold kalt_ok, dec_ok in Hcur. apply andb_true_iff in Hcur as [H1 H2].
  unfold policy_freq. cbn [cpu_policy p_scaling_cur p_cpuinfo_cur p_min p_max p_online].
  rewrite !khz_file_dec by assumption. cbn [obind]. unfold spec_freq, spec_alt.
  destruct (a_first cur) as [ds| |]; cbn [to_fres read_opt kf_ok is_present orb] in *.
  - unfold k_dec, py_int. rewrite parse_int_nl by exact H1. reflexivity.
  - destruct (a_second cur) as [es| |]; cbn [to_fres read_opt kf_ok is_present] in *; try discriminate.
    unfold k_dec, py_int. rewrite parse_int_nl by exact H2. reflexivity.
  - destruct (a_second cur) as [es| |]; cbn [to_fres read_opt kf_ok is_present] in *; try discriminate.
    unfold k_dec, py_int. rewrite parse_int_nl by exact H2. reflexivity.
Qed.

Lemma policies_loop_spec cpus : forallb kcpu_ok cpus = true ->
  policies_loop None (map cpu_policy cpus) = Val (map spec_freq cpus).
Proof.
  induction cpus as [|c cpus IH]; intros H; [reflexivity|].
  cbn [forallb] in H. apply andb_true_iff in H as [Hc Hcs].
  cbn [map policies_loop]. rewrite policy_freq_spec by exact Hc. cbn [obind].
  rewrite IH by exact Hcs. reflexivity.
Qed.

(* sysfs implementation, current frequency read from the policy files: every CPU reports
   kHz/1000 for current/min/max; an offline CPU reports zeros *)
Theorem cpu_freq_percpu cpuinfo fr cpus :
  cpuinfo_freqs cpuinfo = Val fr -> length fr <> length cpus -> forallb kcpu_ok cpus = true ->
  cpu_freq_platform true cpuinfo (map cpu_policy cpus) = Val (map spec_freq cpus).
Proof.
  intros Hf Hl Hok. unfold cpu_freq_platform. rewrite Hf. cbn [obind]. rewrite map_length.
  destruct (Nat.eqb_spec (length cpus) (length fr)) as [E|_]; [congruence|].
  now apply policies_loop_spec.
Qed.

(* cpuinfo implementation: one entry per "cpu MHz" value, min = max = 0 *)
Theorem cpu_freq_cpuinfo_impl cpuinfo fr ps :
  cpuinfo_freqs cpuinfo = Val fr ->
  cpu_freq_platform false cpuinfo ps = Val (map (fun x => {| fq_cur := x; fq_min := 0; fq_max := 0 |}) fr).
Proof. intros Hf. unfold cpu_freq_platform. now rewrite Hf. Qed.

(* cpuinfo-sourced current value: "%u.%03u" MHz is reported exactly *)
Lemma cpuinfo_cur_exact n : 0 <= n ->
  (milli (inject_Z (q_trunc (Qmake n 1000 * 1000))) == Qmake n 1000)%Q.
Proof.
  intros Hn. unfold q_trunc, Qmult. cbn [Qnum Qden]. change (Z.pos (1000 * 1)) with 1000.
  rewrite Z.quot_mul by lia. unfold milli, Qeq, Qdiv, Qmult, Qinv, inject_Z. cbn. lia.
Qed.

(* mean *)
Lemma qsum_acc l : forall a, (fold_left Qplus l a == a + qsum_r l)%Q.
Proof.
  induction l as [|x l IH]; intros a; cbn [fold_left qsum_r fold_right].
  - ring.
  - rewrite IH. unfold qsum_r. ring.
Qed.
Lemma qsum_eq l : (qsum l == qsum_r l)%Q.
Proof. unfold qsum. rewrite qsum_acc. ring. Qed.

Theorem cpu_freq_mean_spec ret : ret <> [] ->
  exists f, cpu_freq_mean ret = Some f /\
    freq_eq f {| fq_cur := mean (map fq_cur ret); fq_min := mean (map fq_min ret); fq_max := mean (map fq_max ret) |}.
Proof.
  intros Hne. destruct ret as [|a [|b r]]; [congruence| |].
  - exists a. split; [reflexivity|]. unfold freq_eq, mean. cbn [map qsum_r fold_right length fq_cur fq_min fq_max].
    change (inject_Z (Z.of_nat 1)) with 1%Q. repeat split; field.
  - eexists. split; [reflexivity|]. unfold freq_eq, mean. cbn [fq_cur fq_min fq_max].
    rewrite !map_length. repeat split; rewrite qsum_eq; reflexivity.
Qed.
Theorem cpu_freq_mean_none : cpu_freq_mean [] = None.
Proof. reflexivity. Qed.

Example cpu_freq_example :
  let cpus := [Online {| a_first := Present (bs "2400000"); a_second := Absent |} (bs "800000") (bs "3600000"); Offline] in
  forallb kcpu_ok cpus = true /\ cpuinfo_freqs (FC []) = Val [] /\
  map spec_freq cpus = [{| fq_cur := mhz 2400000; fq_min := mhz 800000; fq_max := mhz 3600000 |};
                        {| fq_cur := 0; fq_min := 0; fq_max := 0 |}].
Proof. cbv zeta. repeat split. Qed.

(* cpu_count(): a count below 1 is reported as None; sysconf answer passed through *)
Theorem cpu_count_front_spec r :
  cpu_count_front r = match r with Some n => if 1 <=? n then Some n else None | None => None end.
Proof. destruct r as [n|]; [|reflexivity]. unfold cpu_count_front. destruct (Z.ltb_spec n 1), (Z.leb_spec 1 n); auto; lia. Qed.
Theorem cpu_count_logical_sysconf n cpuinfo stat : cpu_count_logical (Some n) cpuinfo stat = Val (Some n).
Proof. reflexivity. Qed.

(* cpu_count() is a positive int or None: never 0 *)
Theorem cpu_count_front_pos r n : cpu_count_front r = Some n -> 1 <= n.
Proof. unfold cpu_count_front. destruct r as [m|]; [|discriminate]. destruct (Z.ltb_spec m 1); [discriminate|]. intros E. inversion E. lia. Qed.
