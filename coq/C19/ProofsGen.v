(* The pieces of psutil/_pslinux.py:sensors_battery() translated from the CURRENT source (Gen/C19_Tables.v, written by
   props/_c19_tr.py on every run) compute the hand-written model's functions on every input. *)
From Coq Require Import String Lia.
From PV Require Import C19.PyGen Gen.C19_Tables.
Open Scope Z_scope.

(* the nested helper multi_bcat: for every list of files (content / absent / unreadable, any length) *)
Theorem gen_multi_bcat_correct : forall fs, run_multi gen_multi_bcat fs = Val (multi_bcat fs).
Proof.
  induction fs as [|[b| |] r IH];
    cbn [run_multi multi_bcat gen_multi_bcat mf_guarded mf_try mf_class mf_handler]; try assumption; try reflexivity.
  unfold conv, py_int. destruct (parse_int b); reflexivity.
Qed.

(* the head: listdir guard, battery-name filter, emptiness check, min() *)
Lemma head_filter_eq {A} (l : list (bytes * A)) :
  filter (fun e => prefixb (hd_prefix gen_battery_head) (fst e) || has_sub (hd_sub gen_battery_head) (lower (fst e))) l
  = filter (fun e => is_battery_name (fst e)) l.
Proof. reflexivity. Qed.

Theorem gen_battery_head_correct : forall (A : Type) (listing : option (list (bytes * A))),
  run_head gen_battery_head listing =
  match listing with
  | None => Val None
  | Some l => match filter (fun e => is_battery_name (fst e)) l with
              | [] => Val None
              | x :: r => Val (Some (min_entry x r))
              end
  end.
Proof.
  intros A [l|]; [|reflexivity].
  unfold run_head. rewrite head_filter_eq.
  destruct (filter (fun e => is_battery_name (fst e)) l); reflexivity.
Qed.

(* hence: whatever the translated body computes for the chosen entry is what sensors_battery returns *)
Theorem gen_sensors_battery_head : forall m body listing ac0 ac,
  (forall bf, run_body m body bf ac0 ac = battery_of bf ac0 ac) ->
  run_sensors_battery gen_battery_head m body listing ac0 ac = sensors_battery true listing ac0 ac.
Proof.
  intros m body listing ac0 ac H. unfold run_sensors_battery, sensors_battery.
  rewrite gen_battery_head_correct. destruct listing as [l|]; [|reflexivity].
  destruct (filter (fun e => is_battery_name (fst e)) l); [reflexivity|]. cbn. apply H.
Qed.

(* ------------------------------------------------ the body after `root = ...` (percent / power_plugged / secsleft)
   NOT yet proved equal to battery_of for all inputs (the case analysis over the interpreter was too slow to finish
   in the round).  What is proved: the program translated from the current source is, statement for statement, the
   reference program below (a frozen copy of the translation of /repo at 16d17e9), so that any edit of the source body
   that changes the translated program breaks this theorem and starts the search for a failing input; and the
   reference program run through the interpreter agrees with the model on the sample layouts below (computed). *)
Definition battery_body_ref : list stmt :=
  [(SAssign "energy_now"%string (EMulti [(PRoot "/energy_now"%string); (PRoot "/charge_now"%string)]));
   (SAssign "power_now"%string (EMulti [(PRoot "/power_now"%string); (PRoot "/current_now"%string)]));
   (SAssign "energy_full"%string (EMulti [(PRoot "/energy_full"%string); (PRoot "/charge_full"%string)]));
   (SAssign "time_to_empty"%string (EMulti [(PRoot "/time_to_empty_now"%string)]));
   (SIf (EAnd (EIsNone true (EVar "energy_full"%string)) (EIsNone true (EVar "energy_now"%string))) [(STry (SAssign "percent"%string (EDiv (EMul (EFloat (100)) (EVar "energy_now"%string)) (EVar "energy_full"%string))) ZeroDivisionError [(SAssign "percent"%string (EFloat (0)))])] [(SAssign "percent"%string (EIntOf (ECat (PRoot "/capacity"%string) (EInt (-1)))));
   (SIf (EEq (EVar "percent"%string) (EInt (-1))) [(SReturn ENone)] [])]);
   (SAssign "power_plugged"%string ENone);
   (SAssign "online"%string (EMulti [(PSupply "AC0/online"%string); (PSupply "AC/online"%string)]));
   (SIf (EIsNone true (EVar "online"%string)) [(SAssign "power_plugged"%string (EEq (EVar "online"%string) (EInt (1))))] [(SAssign "status"%string (ELower (EStrip (ECat (PRoot "/status"%string) (EStr [])))));
   (SIf (EEq (EVar "status"%string) (EStr [100;105;115;99;104;97;114;103;105;110;103])) [(SAssign "power_plugged"%string (EBool false))] [(SIf (EInSet (EVar "status"%string) [[99;104;97;114;103;105;110;103]; [102;117;108;108]]) [(SAssign "power_plugged"%string (EBool true))] [])])]);
   (SIf (EVar "power_plugged"%string) [(SAssign "secsleft"%string (ETime true))] [(SIf (EAnd (EIsNone true (EVar "energy_now"%string)) (EIsNone true (EVar "power_now"%string))) [(STry (SAssign "secsleft"%string (EIntOf (EMul (EDiv (EVar "energy_now"%string) (EAbs (EVar "power_now"%string))) (EInt (3600))))) ZeroDivisionError [(SAssign "secsleft"%string (ETime false))])] [(SIf (EIsNone true (EVar "time_to_empty"%string)) [(SAssign "secsleft"%string (EIntOf (EMul (EVar "time_to_empty"%string) (EInt (60)))));
   (SIf (ELt (EVar "secsleft"%string) (EInt (0))) [(SAssign "secsleft"%string (ETime false))] [])] [(SAssign "secsleft"%string (ETime false))])])]);
   (SReturn (ESbattery (EVar "percent"%string) (EVar "secsleft"%string) (EVar "power_plugged"%string)))].

Theorem gen_battery_body_pinned : gen_battery_body = battery_body_ref.
Proof. reflexivity. Qed.

Definition sample_bf (en pn ef tte cap st : fres) : batfiles :=
  {| b_energy_now := en; b_charge_now := FAbsent; b_power_now := FAbsent; b_current_now := pn;
     b_energy_full := FAbsent; b_charge_full := ef; b_time_to_empty := tte; b_capacity := cap; b_status := st |}.
Definition sample_files : list fres :=
  [FAbsent; FError; FC (bs "0
"); FC (bs "-1000000
"); FC (bs "3000000
"); FC (bs "Discharging
"); FC (bs "full
"); FC (bs "57
")].
Definition sample_agree : bool :=
  forallb (fun en => forallb (fun pn => forallb (fun ef => forallb (fun x => forallb (fun ac0 =>
    match run_body gen_multi_bcat battery_body_ref (sample_bf en pn ef x x x) ac0 FAbsent,
          battery_of (sample_bf en pn ef x x x) ac0 FAbsent with
    | Val None, Val None => true
    | Val (Some a), Val (Some b) =>
        match bt_percent a, bt_percent b with
        | RInt u, RInt v => u =? v | RFloat u, RFloat v => Qeq_bool u v && (Qnum u =? Qnum v) | _, _ => false end
        && match bt_secsleft a, bt_secsleft b with
           | RUnlimited, RUnlimited | RUnknown, RUnknown => true | RSecs u, RSecs v => u =? v | _, _ => false end
        && match bt_plugged a, bt_plugged b with
           | None, None => true | Some u, Some v => Bool.eqb u v | _, _ => false end
    | Exc TypeError, Exc TypeError | Exc ValueError, Exc ValueError => true
    | _, _ => false
    end) sample_files) sample_files) sample_files) sample_files) sample_files.
Example body_ref_agrees_on_samples : sample_agree = true.
Proof. vm_compute. reflexivity. Qed.
