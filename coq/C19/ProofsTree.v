(* C19 -- which files the walkers look at: fan nesting fallback, coretemp platform files *)
From PV Require Import C19.Lib C19.ProofsTemps C19.ProofsFans.

(* ------------------------------------------------------------ fans: direct vs device/ nesting *)
Lemma no_entries_no_fans n chips : fan_entries chips = [] -> spec_fans_of n chips = [].
Proof.
  induction chips as [|c chips IH]; [reflexivity|]. unfold fan_entries. cbn [flat_map]. intros H.
  apply app_eq_nil in H as [Hc Hcs]. unfold spec_fans_of. cbn [flat_map]. fold (spec_fans_of n chips).
  rewrite (IH Hcs), app_nil_r. unfold fanchip_entries in Hc. apply map_eq_nil in Hc.
  rewrite <- somes_filter_fans, Hc. cbn [map somes]. unfold name_is. destruct (kfc_name c) as [m| |]; auto.
  destruct (beqb n m); reflexivity.
Qed.

Lemma spec_fans_app n a b : spec_fans_of n (a ++ b) = spec_fans_of n a ++ spec_fans_of n b.
Proof. unfold spec_fans_of. apply flat_map_app. Qed.

(* the code before commit 1b69de5, one nesting only (all fan files direct, or all below device/): complete *)
Theorem fans_legacy_tree_values direct nested :
  forallb kfanchip_ok direct = true -> forallb kfanchip_ok nested = true ->
  fan_entries direct = [] \/ fan_entries nested = [] ->
  exists d, sensors_fans_legacy_tree true (fan_entries direct) (fan_entries nested) = Val d /\
    forall n, dict_get n d = match spec_fans_of n (direct ++ nested) with [] => None | l => Some l end.
Proof.
  intros Hd Hn Hx. unfold sensors_fans_legacy_tree, fan_basenames_legacy.
  destruct (fan_entries direct) as [|e es] eqn:E.
  - destruct (fans_values true nested Hn (or_introl eq_refl)) as [d [H1 H2]].
    exists d. split; [exact H1|]. intros n. rewrite spec_fans_app, (no_entries_no_fans n direct E). apply H2.
  - destruct Hx as [Hx|Hx]; [discriminate|]. rewrite <- E.
    destruct (fans_values true direct Hd (or_introl eq_refl)) as [d [H1 H2]].
    exists d. split; [exact H1|]. intros n. rewrite spec_fans_app, (no_entries_no_fans n nested Hx), app_nil_r. apply H2.
Qed.

(* ... but with both nestings present the fans below device/ were not reported; the code as it is reports them *)
Theorem fans_mixed_nesting_refuted :
  exists direct nested d d', forallb kfanchip_ok direct = true /\ forallb kfanchip_ok nested = true /\
    sensors_fans_legacy_tree true (fan_entries direct) (fan_entries nested) = Val d /\
    dict_get (bs "nct6775") d = None /\
    spec_fans_of (bs "nct6775") (direct ++ nested) = [{| fr_label := bs "CPU Fan"; fr_cur := 1200 |}] /\
    sensors_fans true (fan_entries (direct ++ nested)) = Val d' /\
    dict_get (bs "nct6775") d' = Some [{| fr_label := bs "CPU Fan"; fr_cur := 1200 |}].
Proof.
  exists [{| kfc_name := Present (bs "thinkpad");
             kfc_fans := [{| kn_input := Present (KN false (bs "3500")); kn_label := Absent; kn_other := false |}] |}].
  exists [{| kfc_name := Present (bs "nct6775");
             kfc_fans := [{| kn_input := Present (KN false (bs "1200")); kn_label := Present (bs "CPU Fan"); kn_other := false |}] |}].
  eexists. eexists. split; [reflexivity|]. split; [reflexivity|]. split; [vm_compute; reflexivity|].
  split; [reflexivity|]. split; [reflexivity|]. split; [vm_compute; reflexivity|]. reflexivity.
Qed.

(* ------------------------------------------------------------ temperatures: coretemp platform files *)
Lemma temps_loop_app a : forall b d,
  temps_loop (a ++ b) d = do d' <- temps_loop a d; temps_loop b d'.
Proof.
  induction a as [|e a IH]; intros b d; [reflexivity|]. cbn [app temps_loop].
  destruct (guard (temp_head (t_input e) (t_name e))) as [[[cur name]|]| |]; cbn [obind]; auto.
  destruct (threshold_of (read_opt (t_max e))) as [hi| |]; cbn [obind]; auto.
  destruct (threshold_of (read_opt (t_crit e))) as [cr| |]; cbn [obind]; auto.
Qed.

Lemma temps_loop_absent es d : Forall (fun e => t_input e = FAbsent) es -> temps_loop es d = Val d.
Proof.
  induction 1 as [|e es He _ IH]; [reflexivity|]. cbn [temps_loop]. unfold temp_head. rewrite He. cbn. exact IH.
Qed.

Lemma coretemp_all_absent plat : Forall (fun e => t_input e = FAbsent) (coretemp_names plat).
Proof.
  unfold coretemp_names. apply Forall_forall. intros e He.
  apply in_flat_map in He as [c [_ He]]. apply in_flat_map in He as [s [_ He]].
  apply repeat_spec in He. now subst.
Qed.

(* sensors found only below /sys/devices/platform/coretemp.* are entries like any other: every layout *)
Theorem temps_with_platform chips plat zones fahr :
  forallb kchip_ok chips = true -> forallb kchip_ok plat = true ->
  hwmon_entries chips ++ hwmon_entries plat <> [] ->
  exists d, sensors_temperatures (hwmon_entries chips ++ hwmon_entries plat) zones fahr = Val d /\
    forall n, dict_get n d = match spec_temps_of fahr n (chips ++ plat) with [] => None | l => Some l end.
Proof.
  intros H1 H2 Hne. assert (E : hwmon_entries (chips ++ plat) = hwmon_entries chips ++ hwmon_entries plat)
    by (unfold hwmon_entries; apply flat_map_app).
  rewrite <- E in *. apply temps_values; [|exact Hne]. rewrite forallb_app. now rewrite H1, H2.
Qed.

(* the code before commit 64999d5: the appended FILE names never contributed a reading *)
Theorem coretemp_ignored chips plat zones fahr : hwmon_entries chips <> [] ->
  sensors_temperatures (hwmon_entries chips ++ coretemp_names plat) zones fahr
  = sensors_temperatures (hwmon_entries chips) zones fahr.
Proof.
  intros Hne. unfold sensors_temperatures, sensors_temperatures_at, temps_platform.
  destruct (hwmon_entries chips) as [|e es] eqn:E; [congruence|]. cbn [app]. rewrite <- E.
  change (e :: es ++ coretemp_names plat) with ((e :: es) ++ coretemp_names plat). rewrite <- E.
  rewrite temps_loop_app. destruct (temps_loop (hwmon_entries chips) []) as [d| |]; cbn [obind]; auto.
  now rewrite temps_loop_absent by apply coretemp_all_absent.
Qed.

(* the code before commit 64999d5: a readable coretemp sensor that exists only below /sys/devices/platform was not
   reported, and its files even switched the thermal-zone fallback off *)
Theorem coretemp_platform_refuted :
  exists plat zones, forallb kchip_ok plat = true /\ forallb kzone_ok zones = true /\
    sensors_temperatures (hwmon_entries [] ++ coretemp_names plat) (map zone_entry zones) false = Val [] /\
    spec_temps_of false (bs "coretemp") plat <> [] /\
    sensors_temperatures (hwmon_entries []) (map zone_entry zones) false <> Val [].
Proof.
  exists [{| kc_name := Present (bs "coretemp");
             kc_sensors := [{| ks_input := Present (KN false (bs "45000")); ks_max := Absent; ks_crit := Absent;
                               ks_label := Present (bs "Core 0"); ks_other := false |}] |}].
  exists [{| kz_temp := Present (KN false (bs "50000")); kz_type := Present (bs "acpitz"); kz_trips := [] |}].
  split; [reflexivity|]. split; [reflexivity|]. split; [vm_compute; reflexivity|].
  split; vm_compute; discriminate.
Qed.
