(* C19 -- reusable lemmas: sysfs attribute printing/parsing round trips, dictionary
   (defaultdict(list)) lookups, rational facts. *)
From PV Require Export C19.Spec.

(* ------------------------------------------------------------ strip / text attributes *)
Lemma strip_app_nl x : x <> [] -> no_ws x = true -> strip (x ++ [10]) = x.
Proof.
  intros Hne Hnw. unfold strip.
  assert (L : lstrip (x ++ [10]) = x ++ [10]).
  { destruct x as [|c x]; [congruence|]. cbn [no_ws forallb] in Hnw.
    apply andb_true_iff in Hnw as [Hc _]. apply negb_true_iff in Hc.
    cbn [app lstrip]. now rewrite Hc. }
  rewrite L, rstrip_snoc. change (is_ws 10) with true. cbv iota.
  rewrite <- (app_nil_l x). now apply rstrip_no_ws_tail.
Qed.

Lemma rstrip_last_nows x : x <> [] -> is_ws (last x 0) = false -> rstrip x = x.
Proof.
  intros Hne Hl. destruct (exists_last Hne) as [y [c ->]].
  rewrite last_last in Hl. now rewrite rstrip_snoc, Hl.
Qed.

Lemma strip_text n : text_ok n = true -> strip (k_text n) = n.
Proof.
  unfold k_text. destruct n as [|c r]; [reflexivity|]. intros H.
  cbn [text_ok] in H. apply andb_true_iff in H as [Hc Hl].
  apply negb_true_iff in Hc. apply negb_true_iff in Hl.
  unfold strip. change ((c :: r) ++ [10]) with (c :: (r ++ [10])).
  rewrite lstrip_nows by exact Hc.
  change (c :: (r ++ [10])) with ((c :: r) ++ [10]).
  rewrite rstrip_snoc. change (is_ws 10) with true. cbv iota.
  apply rstrip_last_nows; [congruence|exact Hl].
Qed.

Lemma text_or_empty_spec f : kf_ok text_ok f = true -> text_or_empty (to_fres k_text f) = spec_text f.
Proof. destruct f as [n| |]; cbn; auto. apply strip_text. Qed.

Lemma lstrip_app_nows x c y : is_ws c = false -> lstrip (x ++ c :: y) = lstrip x ++ c :: y.
Proof.
  intros Hc. induction x as [|d x IH]; cbn [app lstrip].
  - now rewrite Hc.
  - destruct (is_ws d); [exact IH|reflexivity].
Qed.

(* rstrip never reaches past a non-blank byte *)
Lemma rstrip_keep a c b : is_ws c = false -> rstrip (a ++ c :: b) = a ++ c :: rstrip b.
Proof.
  intros Hc. unfold rstrip. rewrite rev_app_distr. cbn [rev]. rewrite <- app_assoc. cbn [app].
  rewrite lstrip_app_nows by exact Hc. rewrite rev_app_distr. cbn [rev]. rewrite rev_involutive.
  rewrite <- app_assoc. reflexivity.
Qed.

Lemma lstrip_blanks l : forallb is_blank l = true -> lstrip l = [].
Proof.
  induction l as [|c l IH]; [reflexivity|]. cbn [forallb lstrip]. intros H. apply andb_true_iff in H as [Hc Hl].
  assert (is_ws c = true) as -> by (unfold is_blank, is_ws in *; lia). now apply IH.
Qed.
Lemma rstrip_blanks_nl l : forallb is_blank l = true -> rstrip (l ++ [10]) = [].
Proof.
  intros H. rewrite rstrip_snoc. change (is_ws 10) with true. cbv iota. unfold rstrip.
  rewrite lstrip_blanks; [reflexivity|]. rewrite forallb_forall in *. intros x Hx. apply H. now apply in_rev.
Qed.

(* ------------------------------------------------------------ numeric attributes *)
Lemma parse_int_same_strip a b : strip a = strip b -> parse_int a = parse_int b.
Proof. intros H. unfold parse_int, parse_signed. now rewrite H. Qed.

Lemma parse_int_nl ds : is_dec ds = true -> parse_int (ds ++ [10]) = Some (dec_val ds).
Proof.
  intros H. rewrite <- (parse_int_dec ds H). apply parse_int_same_strip.
  destruct (is_dec_tok ds H) as [Hne Hnw].
  rewrite strip_app_nl by assumption. symmetry. now apply strip_no_ws.
Qed.

Lemma parse_int_neg_nl ds : is_dec ds = true -> parse_int (45 :: ds ++ [10]) = Some (- dec_val ds).
Proof.
  intros H. destruct (is_dec_tok ds H) as [Hne Hnw].
  unfold parse_int, parse_signed.
  change (45 :: ds ++ [10]) with ((45 :: ds) ++ [10]).
  rewrite strip_app_nl; [|congruence|cbn [no_ws forallb]; exact Hnw].
  change (45 =? 45) with true. cbv iota.
  destruct ds as [|c r]; [congruence|]. unfold is_dec in H.
  rewrite digits_us_digits; [reflexivity|exact H|left; congruence].
Qed.

Lemma parse_int_knum neg ds : is_dec ds = true -> parse_int (k_knum (KN neg ds)) = Some (sval neg ds).
Proof.
  intros H. unfold k_knum, sval. destruct neg; cbn [app].
  - now apply parse_int_neg_nl.
  - now apply parse_int_nl.
Qed.

(* int() on a signed power_supply attribute: blanks, sign, digits, blanks, newline *)
Lemma strip_snum x : snum_ok x = true -> strip (k_snum x) = sgn_bytes (sn_sign x) ++ sn_digits x.
Proof.
  unfold snum_ok, k_snum. intros H. apply andb_true_iff in H as [H Ht]. apply andb_true_iff in H as [Hl Hd].
  destruct (is_dec_tok _ Hd) as [Hne Hnw].
  destruct (exists_last Hne) as [ds' [c E]].
  assert (Hc : is_ws c = false).
  { rewrite E, no_ws_app in Hnw. apply andb_true_iff in Hnw as [_ Hc]. cbn in Hc. rewrite andb_true_r in Hc.
    now apply negb_true_iff in Hc. }
  unfold strip.
  assert (L : lstrip (sn_lead x ++ sgn_bytes (sn_sign x) ++ sn_digits x ++ sn_trail x ++ [10])
              = sgn_bytes (sn_sign x) ++ sn_digits x ++ sn_trail x ++ [10]).
  { destruct (sgn_bytes (sn_sign x) ++ sn_digits x ++ sn_trail x ++ [10]) as [|h t] eqn:E2.
    - destruct (sn_sign x); cbn in E2; try discriminate. apply app_eq_nil in E2 as [E2 _]. congruence.
    - assert (Hh : is_ws h = false).
      { destruct (sn_sign x); cbn [sgn_bytes app] in E2; try (inversion E2; reflexivity).
        destruct (sn_digits x) as [|d ds]; [congruence|]. inversion E2; subst.
        cbn [no_ws forallb] in Hnw. apply andb_true_iff in Hnw as [Hh _]. now apply negb_true_iff in Hh. }
      rewrite lstrip_app_nows by exact Hh. now rewrite lstrip_blanks. }
  rewrite L. rewrite E. rewrite <- !app_assoc. cbn [app].
  replace (sgn_bytes (sn_sign x) ++ ds' ++ c :: sn_trail x ++ [10])
    with ((sgn_bytes (sn_sign x) ++ ds') ++ c :: (sn_trail x ++ [10])) by (now rewrite <- app_assoc).
  rewrite rstrip_keep by exact Hc. rewrite rstrip_blanks_nl by exact Ht. now rewrite <- app_assoc.
Qed.

Lemma parse_int_snum x : snum_ok x = true -> parse_int (k_snum x) = Some (snum_val x).
Proof.
  intros H. pose proof (strip_snum x H) as S. unfold snum_ok in H.
  apply andb_true_iff in H as [H _]. apply andb_true_iff in H as [_ Hd].
  unfold parse_int, parse_signed. rewrite S. unfold snum_val.
  destruct (sn_digits x) as [|d ds] eqn:E; [discriminate|]. unfold is_dec in Hd.
  assert (Hdig : is_digit d = true) by (cbn [all_digits forallb] in Hd; now apply andb_true_iff in Hd as [Hd _]).
  destruct (sn_sign x); cbn [sgn_bytes app].
  - assert (d =? 45 = false) as -> by (unfold is_digit in Hdig; lia).
    assert (d =? 43 = false) as -> by (unfold is_digit in Hdig; lia).
    unfold dec_val. apply digits_us_digits; [exact Hd|left; congruence].
  - change (43 =? 45) with false. change (43 =? 43) with true. cbv iota.
    unfold dec_val. apply digits_us_digits; [exact Hd|left; congruence].
  - change (45 =? 45) with true. cbv iota.
    rewrite digits_us_digits; [reflexivity|exact Hd|left; congruence].
Qed.

Lemma py_float_knum neg ds : is_dec ds = true -> py_float (k_knum (KN neg ds)) = Val (inject_Z (sval neg ds)).
Proof. intros H. unfold py_float. now rewrite parse_int_knum. Qed.

Lemma gl_no_ws b : forallb is_gl b = true -> no_ws b = true.
Proof.
  induction b as [|c b IH]; cbn [forallb no_ws]; auto. intros H.
  apply andb_true_iff in H as [Hc Hb].
  assert (is_ws c = false) as -> by (unfold is_gl, is_ws in *; lia). cbn [negb andb]. now apply IH.
Qed.
Lemma gl_no_dot b : forallb is_gl b = true -> contains 46 b = false.
Proof.
  induction b as [|c b IH]; auto. cbn [forallb]. intros H.
  apply andb_true_iff in H as [Hc Hb]. rewrite contains_cons, (IH Hb). unfold is_gl in Hc. lia.
Qed.
Lemma gl_no_digit b : forallb is_gl b = true -> has_digit b = false.
Proof.
  unfold has_digit. induction b as [|c b IH]; auto. cbn [forallb existsb]. intros H.
  apply andb_true_iff in H as [Hc Hb]. rewrite (IH Hb). unfold is_gl, is_digit in *. lia.
Qed.
Lemma gl_no_n b : forallb is_gl b = true -> has_n b = false.
Proof.
  unfold has_n. induction b as [|c b IH]; auto. cbn [forallb existsb]. intros H.
  apply andb_true_iff in H as [Hc Hb]. rewrite (IH Hb). unfold is_gl in *. lia.
Qed.

Lemma py_float_junk b : forallb is_gl b = true -> py_float b = Exc ValueError.
Proof.
  intros H. unfold py_float.
  assert (P : parse_int b = None).
  { destruct b as [|c r]; [reflexivity|].
    unfold parse_int, parse_signed. rewrite strip_no_ws by (now apply gl_no_ws).
    cbn [forallb] in H. apply andb_true_iff in H as [Hc _].
    assert (c =? 45 = false) as -> by (unfold is_gl in Hc; lia).
    assert (c =? 43 = false) as -> by (unfold is_gl in Hc; lia).
    cbn [digits_us]. unfold digit_val.
    assert ((48 <=? c) && (c <=? 57) = false) as -> by (unfold is_gl in Hc; lia).
    assert ((97 <=? c) && (c <=? 122) = true) as -> by (unfold is_gl in Hc; lia).
    assert (c - 87 <? 10 = false) as -> by (unfold is_gl in Hc; lia).
    now rewrite andb_false_r. }
  assert (D : parse_decimal b = None).
  { destruct b as [|c r]; [reflexivity|].
    unfold parse_decimal. rewrite strip_no_ws by (now apply gl_no_ws).
    pose proof (gl_no_dot _ H) as Hd.
    cbn [forallb] in H. apply andb_true_iff in H as [Hc _].
    assert (c =? 45 = false) as -> by (unfold is_gl in Hc; lia).
    assert (c =? 43 = false) as -> by (unfold is_gl in Hc; lia).
    now rewrite split_on_nosep by exact Hd. }
  now rewrite P, D, gl_no_digit, gl_no_n.
Qed.

(* bcat(f, fallback=None) then float()/1000 with ValueError -> None *)
Lemma threshold_spec f : kf_ok knum_ok f = true ->
  threshold_of (read_opt (to_fres k_knum f)) = Val (spec_milli f).
Proof.
  destruct f as [[neg ds|b]| |]; cbn [kf_ok knum_ok to_fres read_opt threshold_of spec_milli]; intros H; auto.
  - now rewrite py_float_knum.
  - cbn [k_knum]. now rewrite py_float_junk.
Qed.

(* current = float(bcat(input))/1000 ; name = cat(name).strip(), inside try/except (OSError, ValueError) *)
Lemma head_spec input name : kf_ok knum_ok input = true -> kf_ok text_ok name = true ->
  guard (temp_head (to_fres k_knum input) (to_fres k_text name)) =
  Val (match spec_milli input, name with
       | Some c, Present n => Some (c, n)
       | _, _ => None
       end).
Proof.
  intros Hi Hn. unfold temp_head.
  destruct input as [[neg ds|b]| |]; cbn [kf_ok knum_ok to_fres read_req obind spec_milli] in *; auto.
  - rewrite py_float_knum by exact Hi. cbn [obind].
    destruct name as [n| |]; cbn [to_fres read_req obind guard kf_ok] in *; auto.
    now rewrite strip_text.
  - cbn [k_knum]. now rewrite py_float_junk.
Qed.

(* ------------------------------------------------------------ dictionaries *)
Section Dict.
Context {V : Type}.
Implicit Types d : list (bytes * list V).

Lemma beqb_sym a b : beqb a b = beqb b a.
Proof.
  destruct (beqb a b) eqn:E1, (beqb b a) eqn:E2; auto.
  - apply beqb_eq in E1. subst. now rewrite beqb_refl in E2.
  - apply beqb_eq in E2. subst. now rewrite beqb_refl in E1.
Qed.

Lemma beqb_trans_false n k k' : beqb k k' = true -> beqb n k = beqb n k'.
Proof. intros H. apply beqb_eq in H. now subst. Qed.

Lemma dict_get_append n k (v : V) d :
  dict_get n (dict_append k v d) =
  if beqb n k then Some (match dict_get k d with Some l => l ++ [v] | None => [v] end)
  else dict_get n d.
Proof.
  induction d as [|[k' l] d IH]; cbn [dict_append dict_get].
  - destruct (beqb n k); reflexivity.
  - destruct (beqb k k') eqn:E; cbn [dict_get].
    + rewrite (beqb_trans_false n k k' E). destruct (beqb n k'); reflexivity.
    + destruct (beqb n k') eqn:E2.
      * destruct (beqb n k) eqn:E3; [|reflexivity].
        apply beqb_eq in E2, E3. subst. now rewrite beqb_refl in E.
      * exact IH.
Qed.

(* appending a stream of optional (key, value) pairs *)
Definition app_opt (d : list (bytes * list V)) (x : option (bytes * V)) :=
  match x with Some (k, v) => dict_append k v d | None => d end.
Definition sel (n : bytes) (l : list (option (bytes * V))) : list V :=
  flat_map (fun x => match x with Some (m, r) => if beqb n m then [r] else [] | None => [] end) l.

Lemma dict_get_fold n l : forall d,
  dict_get n (fold_left app_opt l d) =
  match dict_get n d, sel n l with
  | None, [] => None
  | None, a => Some a
  | Some x, a => Some (x ++ a)
  end.
Proof.
  induction l as [|x l IH]; intros d; cbn [fold_left sel flat_map].
  - destruct (dict_get n d); [now rewrite app_nil_r|reflexivity].
  - rewrite IH. fold (sel n l). destruct x as [[m r]|]; cbn [app_opt].
    + rewrite dict_get_append. destruct (beqb n m) eqn:E.
      * apply beqb_eq in E. subst m. destruct (dict_get n d) as [x|]; cbn [app].
        -- now rewrite <- app_assoc.
        -- reflexivity.
      * cbn [app]. reflexivity.
    + cbn [app]. reflexivity.
Qed.

Lemma dict_get_fold_nil n l :
  dict_get n (fold_left app_opt l []) = match sel n l with [] => None | a => Some a end.
Proof. rewrite dict_get_fold. cbn [dict_get]. destruct (sel n l); reflexivity. Qed.
End Dict.

Lemma dict_get_map {V W} (f : V -> W) n (d : list (bytes * V)) :
  dict_get n (map (fun kv => (fst kv, f (snd kv))) d) = option_map f (dict_get n d).
Proof.
  induction d as [|[k v] d IH]; [reflexivity|]. cbn [map dict_get fst snd].
  destruct (beqb n k); [reflexivity|exact IH].
Qed.

Lemma sel_app {V} n (a b : list (option (bytes * V))) : sel n (a ++ b) = sel n a ++ sel n b.
Proof. unfold sel. apply flat_map_app. Qed.

Lemma somes_app {A} (a b : list (option A)) : somes (a ++ b) = somes a ++ somes b.
Proof. induction a as [|[x|] a IH]; cbn [somes app]; auto. now rewrite IH. Qed.

(* selecting the pairs tagged with one chip's name *)
Lemma sel_tagged {V} n (name : kf bytes) (l : list (option V)) :
  sel n (map (fun o => match name with Present m => option_map (pair m) o | _ => None end) l)
  = name_is n name (somes l).
Proof.
  unfold name_is. destruct name as [m| |].
  - induction l as [|[x|] l IH]; cbn [map sel flat_map somes option_map].
    + destruct (beqb n m); reflexivity.
    + fold (sel n (map (fun o => option_map (pair m) o) l)). rewrite IH.
      destruct (beqb n m); reflexivity.
    + exact IH.
  - induction l as [|x l IH]; [reflexivity|exact IH].
  - induction l as [|x l IH]; [reflexivity|exact IH].
Qed.

(* ------------------------------------------------------------ rationals *)
Lemma fahr_nz z : Qeq_bool (convert true (milli (inject_Z z))) 0 = false.
Proof.
  destruct (Qeq_bool _ _) eqn:E; [|reflexivity]. apply Qeq_bool_eq in E.
  unfold convert, milli in E. unfold Qeq, Qdiv, Qmult, Qplus, Qinv, inject_Z in E. simpl in E. lia.
Qed.
Lemma milli_nz z : z <> 0 -> Qeq_bool (milli (inject_Z z)) 0 = false.
Proof.
  intros Hz. destruct (Qeq_bool _ _) eqn:E; [|reflexivity]. apply Qeq_bool_eq in E.
  unfold milli in E. unfold Qeq, Qdiv, Qmult, Qplus, Qinv, inject_Z in E. simpl in E. lia.
Qed.
