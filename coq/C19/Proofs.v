From PV Require Import C19.Spec.

Lemma empty_tree fahr :
  sensors_temperatures [] [] fahr = Val [] /\ sensors_fans false [] = Val []
  /\ sensors_battery false (Some []) FAbsent FAbsent = Val None.
Proof. repeat split. Qed.
