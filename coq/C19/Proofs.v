From PV Require Import C19.Spec.

Lemma empty_tree fahr :
  sensors_temperatures [] [] fahr = Val [] /\ sensors_fans true [] = Val []
  /\ sensors_battery true (Some []) FAbsent FAbsent = Val None /\ sensors_battery true None FAbsent FAbsent = Val None
  /\ cpu_freq_mean [] = None.
Proof. repeat split. Qed.
