(* C19 -- cpu_stats() and boot_time() over a printed /proc/stat *)
From PV Require Import C19.Lib.


Definition key_of (l : statline) : bytes :=
  match l with
  | SCpu lab _ => bs "cpu" ++ lab | SIntr _ _ => bs "intr" | SCtxt _ => bs "ctxt" | SBtime _ => bs "btime"
  | SSoftirq _ _ => bs "softirq" | SOther k _ => k
  end.
Definition body_of (l : statline) : bytes :=
  match l with
  | SCpu _ rest | SOther _ rest => rest
  | SIntr t rest | SSoftirq t rest => t ++ rest
  | SCtxt n | SBtime n => n
  end.

Lemma line_shape l : k_statline l = key_of l ++ 32 :: body_of l ++ [10].
Proof. destruct l; cbn [k_statline key_of body_of]; rewrite <- ?app_assoc; reflexivity. Qed.

Lemma prefixb_app_sep p : contains 32 p = false -> forall k X,
  prefixb p (k ++ 32 :: X) = prefixb p k.
Proof.
  induction p as [|x p IH]; intros Hp k X; [reflexivity|].
  rewrite contains_cons in Hp. apply orb_false_iff in Hp as [Hx Hp].
  destruct k as [|y k]; cbn [app prefixb].
  - rewrite Z.eqb_sym, Hx. reflexivity.
  - destruct (x =? y); cbn [andb]; [now apply IH|reflexivity].
Qed.


Lemma classify l : statline_ok l = true ->
  prefixb (bs "ctxt") (k_statline l) = is_ctxt l /\ prefixb (bs "intr") (k_statline l) = is_intr l /\
  prefixb (bs "softirq") (k_statline l) = is_softirq l /\ prefixb (bs "btime") (k_statline l) = is_btime l.
Proof.
  intros H. rewrite line_shape, !prefixb_app_sep by reflexivity.
  destruct l as [lab rest|t rest|n|n|t rest|k rest]; cbn [key_of is_ctxt is_intr is_softirq is_btime];
    try (repeat split; reflexivity).
  cbn [statline_ok] in H. apply andb_true_iff in H as [H _]. unfold other_key_ok in H.
  apply andb_true_iff in H as [H _]. apply andb_true_iff in H as [H H4]. apply andb_true_iff in H as [H H3].
  apply andb_true_iff in H as [H H2]. apply andb_true_iff in H as [_ H1].
  apply negb_true_iff in H1, H2, H3, H4. now rewrite H1, H2, H3, H4.
Qed.

Lemma rest_ok_no_nl r : rest_ok r = true -> contains 10 r = false.
Proof.
  unfold rest_ok. induction r as [|c r IH]; auto. cbn [forallb]. intros H.
  apply andb_true_iff in H as [Hc Hr]. rewrite contains_cons, (IH Hr). unfold is_digit in Hc. lia.
Qed.
Lemma digits_no_nl r : all_digits r = true -> contains 10 r = false.
Proof. intros H. apply no_ws_contains; [reflexivity|now apply all_digits_no_ws]. Qed.
Lemma dec_no_nl r : is_dec r = true -> contains 10 r = false.
Proof. intros H. apply digits_no_nl. destruct r; [discriminate|exact H]. Qed.
Lemma ldu_no_nl k : forallb is_lower_dig_us k = true -> contains 10 k = false.
Proof.
  induction k as [|c k IH]; auto. cbn [forallb]. intros H.
  apply andb_true_iff in H as [Hc Hk]. rewrite contains_cons, (IH Hk).
  unfold is_lower_dig_us, is_lower, is_digit in Hc. lia.
Qed.

Lemma line_no_nl l : statline_ok l = true -> contains 10 (key_of l ++ 32 :: body_of l) = false.
Proof.
  intros H. rewrite contains_app, contains_cons. change (10 =? 32) with false. cbn [orb].
  destruct l as [lab rest|t rest|n|n|t rest|k rest]; cbn [statline_ok key_of body_of] in *.
  - apply andb_true_iff in H as [H1 H2]. rewrite contains_app, (digits_no_nl _ H1), (rest_ok_no_nl _ H2). reflexivity.
  - apply andb_true_iff in H as [H1 H2]. rewrite contains_app, (dec_no_nl _ H1), (rest_ok_no_nl _ H2). reflexivity.
  - now rewrite (dec_no_nl _ H).
  - now rewrite (dec_no_nl _ H).
  - apply andb_true_iff in H as [H1 H2]. rewrite contains_app, (dec_no_nl _ H1), (rest_ok_no_nl _ H2). reflexivity.
  - apply andb_true_iff in H as [H1 H2]. unfold other_key_ok in H1.
    repeat (apply andb_true_iff in H1 as [H1 _]). rewrite (ldu_no_nl _ H1), (rest_ok_no_nl _ H2). reflexivity.
Qed.

Lemma lines_keep_k_stat ls : forallb statline_ok ls = true -> lines_keep (k_stat ls) = map k_statline ls.
Proof.
  induction ls as [|l ls IH]; intros H; [reflexivity|].
  cbn [forallb] in H. apply andb_true_iff in H as [Hl Hls].
  unfold k_stat. cbn [map concat]. fold (k_stat ls). rewrite line_shape at 1.
  change (key_of l ++ 32 :: body_of l ++ [10]) with (key_of l ++ (32 :: body_of l) ++ [10]).
  rewrite app_assoc, <- app_assoc. cbn [app].
  rewrite lines_keep_line by (now apply line_no_nl). rewrite IH by exact Hls.
  f_equal. rewrite line_shape. rewrite <- app_assoc. reflexivity.
Qed.

(* second whitespace-separated field of "key v rest\n" *)
Lemma field1_line key v rest : key <> [] -> no_ws key = true -> is_dec v = true -> sp_or_nil rest = true ->
  field1 (key ++ 32 :: (v ++ rest) ++ [10]) = Val v.
Proof.
  intros Hk1 Hk2 Hv Hr. unfold field1. rewrite split_ws_token_sep by auto.
  destruct (is_dec_tok v Hv) as [Hv1 Hv2]. rewrite <- app_assoc.
  destruct rest as [|c rest]; cbn [app].
  - rewrite split_ws_token_sep by auto. reflexivity.
  - cbn [sp_or_nil] in Hr. apply Z.eqb_eq in Hr. subst c.
    rewrite split_ws_token_sep by auto. reflexivity.
Qed.

Lemma value_line l v rest : sl_ok l = true ->
  (l = SCtxt v /\ rest = [] \/ l = SIntr v rest \/ l = SSoftirq v rest) ->
  (do t <- field1 (k_statline l); py_int t) = Val (dec_val v).
Proof.
  intros H Hl. unfold sl_ok in H. apply andb_true_iff in H as [H Hsp].
  assert (G : forall key, key <> [] -> no_ws key = true -> is_dec v = true -> sp_or_nil rest = true ->
              (do t <- field1 (key ++ 32 :: (v ++ rest) ++ [10]); py_int t) = Val (dec_val v)).
  { intros key K1 K2 Hv Hr. rewrite field1_line by assumption. cbn [obind]. unfold py_int.
    now rewrite parse_int_dec. }
  destruct Hl as [[-> ->]|[->| ->]]; rewrite line_shape; cbn [key_of body_of statline_ok] in *.
  - rewrite <- (app_nil_r v) at 1. apply G; auto; discriminate.
  - apply andb_true_iff in H as [Hv _]. apply G; auto; discriminate.
  - apply andb_true_iff in H as [Hv _]. apply G; auto; discriminate.
Qed.

Definition orf (a b : option Z) := match a with Some _ => a | None => b end.
Definition cnt_ok (o : option Z) (k : statline -> bool) (ls : list statline) : Prop :=
  match o with Some _ => count_kind k ls = 0%nat | None => (count_kind k ls <= 1)%nat end.

Lemma cnt_skip o k l ls : k l = false -> cnt_ok o k (l :: ls) -> cnt_ok o k ls.
Proof. unfold cnt_ok. cbn [count_kind]. intros ->. auto. Qed.
Lemma cnt_hit o k l ls : k l = true -> cnt_ok o k (l :: ls) -> o = None /\ forall v, cnt_ok (Some v) k ls.
Proof. unfold cnt_ok. cbn [count_kind]. intros ->. destruct o; cbn; intros H; [lia|]. split; [reflexivity|]. intros _. lia. Qed.

Ltac skipk H := eapply cnt_skip in H; [|reflexivity].

Lemma stats_gen ls : forallb sl_ok ls = true -> forall c i s,
  cnt_ok c is_ctxt ls -> cnt_ok i is_intr ls -> cnt_ok s is_softirq ls ->
  stats_lines (map k_statline ls) c i s =
  Val (orf c (first_ctxt ls), orf i (first_intr ls), orf s (first_softirq ls)).
Proof.
  induction ls as [|l ls IH]; intros H c i s Hc Hi Hs.
  - destruct c, i, s; reflexivity.
  - cbn [forallb] in H. apply andb_true_iff in H as [Hl Hls].
    assert (Hl' : statline_ok l = true) by (unfold sl_ok in Hl; now apply andb_true_iff in Hl as [Hl _]).
    destruct (classify l Hl') as [C1 [C2 [C3 _]]].
    cbn [map stats_lines]. rewrite C1, C2, C3.
    destruct l as [lab rest|t rest|n|n|t rest|k rest]; cbn [is_ctxt is_intr is_softirq].
    + skipk Hc. skipk Hi. skipk Hs. cbn [obind first_ctxt first_intr first_softirq].
      rewrite (IH Hls c i s Hc Hi Hs). destruct c, i, s; reflexivity.
    + skipk Hc. skipk Hs. eapply cnt_hit in Hi; [|reflexivity]. destruct Hi as [-> Hi'].
      pose proof (value_line (SIntr t rest) t rest Hl (or_intror (or_introl eq_refl))) as V.
      destruct (field1 (k_statline (SIntr t rest))) as [tok| |]; cbn [obind] in V |- *; try discriminate.
      rewrite V. cbn [obind first_ctxt first_intr first_softirq orf].
      rewrite (IH Hls c (Some (dec_val t)) s Hc (Hi' _) Hs).
      destruct c, s; reflexivity.
    + skipk Hi. skipk Hs. eapply cnt_hit in Hc; [|reflexivity]. destruct Hc as [-> Hc'].
      pose proof (value_line (SCtxt n) n [] Hl (or_introl (conj eq_refl eq_refl))) as V.
      destruct (field1 (k_statline (SCtxt n))) as [tok| |]; cbn [obind] in V |- *; try discriminate.
      rewrite V. cbn [obind first_ctxt first_intr first_softirq orf].
      rewrite (IH Hls (Some (dec_val n)) i s (Hc' _) Hi Hs).
      destruct i, s; reflexivity.
    + skipk Hc. skipk Hi. skipk Hs. cbn [obind first_ctxt first_intr first_softirq].
      rewrite (IH Hls c i s Hc Hi Hs). destruct c, i, s; reflexivity.
    + skipk Hc. skipk Hi. eapply cnt_hit in Hs; [|reflexivity]. destruct Hs as [-> Hs'].
      pose proof (value_line (SSoftirq t rest) t rest Hl (or_intror (or_intror eq_refl))) as V.
      destruct (field1 (k_statline (SSoftirq t rest))) as [tok| |]; cbn [obind] in V |- *; try discriminate.
      rewrite V. cbn [obind first_ctxt first_intr first_softirq orf].
      rewrite (IH Hls c i (Some (dec_val t)) Hc Hi (Hs' _)).
      destruct c, i; reflexivity.
    + skipk Hc. skipk Hi. skipk Hs. cbn [obind first_ctxt first_intr first_softirq].
      rewrite (IH Hls c i s Hc Hi Hs). destruct c, i, s; reflexivity.
Qed.


Lemma sl_ok_statline_ok ls : forallb sl_ok ls = true -> forallb statline_ok ls = true.
Proof.
  induction ls as [|l ls IH]; auto. cbn [forallb]. intros H. apply andb_true_iff in H as [Hl Hls].
  unfold sl_ok in Hl. apply andb_true_iff in Hl as [Hl _]. now rewrite Hl, IH.
Qed.

(* every /proc/stat with one ctxt, one intr and one softirq line, in any order, among any other lines *)
Theorem cpu_stats_spec ls : stat_ok' ls = true ->
  cpu_stats (FC (k_stat ls)) = Val (first_ctxt ls, first_intr ls, first_softirq ls, 0).
Proof.
  intros H. unfold stat_ok' in H. apply andb_true_iff in H as [Hsl H]. unfold stat_ok in H.
  apply andb_true_iff in H as [H H3]. apply andb_true_iff in H as [H H2]. apply andb_true_iff in H as [_ H1].
  apply Nat.eqb_eq in H1, H2, H3.
  unfold cpu_stats. cbn [read_req obind]. rewrite lines_keep_k_stat by (now apply sl_ok_statline_ok).
  rewrite stats_gen; [reflexivity|exact Hsl| | |]; unfold cnt_ok; lia.
Qed.

(* boot_time: the first btime line *)
Lemma btime_line n : is_dec n = true ->
  (do t <- field1 (strip (k_statline (SBtime n))); py_float t) = Val (inject_Z (dec_val n)).
Proof.
  intros H. destruct (is_dec_tok n H) as [H1 H2]. cbn [k_statline].
  assert (S : strip (bs "btime " ++ n ++ [10]) = bs "btime " ++ n).
  { unfold strip. change (lstrip (bs "btime " ++ n ++ [10])) with (bs "btime " ++ n ++ [10]).
    rewrite app_assoc, rstrip_snoc. change (is_ws 10) with true. cbv iota. now apply rstrip_no_ws_tail. }
  rewrite S. unfold field1. change (bs "btime " ++ n) with (bs "btime" ++ 32 :: n).
  rewrite split_ws_token_sep by (auto; discriminate). rewrite split_ws_token by assumption.
  cbn [nth_error of_option obind]. unfold py_float. now rewrite parse_int_dec.
Qed.

Lemma boot_gen ls : forallb statline_ok ls = true ->
  boot_lines (map k_statline ls) =
  match first_btime ls with Some b => Val (inject_Z b) | None => Exc RuntimeError end.
Proof.
  induction ls as [|l ls IH]; intros H; [reflexivity|].
  cbn [forallb] in H. apply andb_true_iff in H as [Hl Hls].
  destruct (classify l Hl) as [_ [_ [_ C4]]]. cbn [map boot_lines]. rewrite C4.
  destruct l as [lab rest|t rest|n|n|t rest|k rest]; cbn [is_btime first_btime]; try (now apply IH).
  cbn [statline_ok] in Hl. now apply btime_line.
Qed.

Theorem boot_time_spec ls : forallb statline_ok ls = true ->
  boot_time (FC (k_stat ls)) =
  match first_btime ls with Some b => Val (inject_Z b) | None => Exc RuntimeError end.
Proof.
  intros H. unfold boot_time. cbn [read_req obind]. rewrite lines_keep_k_stat by exact H. now apply boot_gen.
Qed.

Example stat_example :
  let ls := [SCpu [] (bs " 10 0 10 100"); SCpu (bs "0") (bs "10 0 10 100"); SIntr (bs "5") (bs " 1 2 0");
             SCtxt (bs "7"); SBtime (bs "1500000000"); SOther (bs "processes") (bs "3"); SSoftirq (bs "9") (bs " 1 2")] in
  stat_ok' ls = true /\ first_ctxt ls = Some 7 /\ first_intr ls = Some 5 /\ first_softirq ls = Some 9
  /\ first_btime ls = Some 1500000000.
Proof. cbv zeta. repeat split. Qed.
