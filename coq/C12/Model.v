(* C12 -- model of
     psutil/_pslinux.py : readlink(), wrap_exceptions, Process._is_zombie,
                          Process._readlink, Process.name/exe/cmdline/environ/cwd
     psutil/_common.py  : open_text() (text-mode read), parse_environ_block()
     psutil/__init__.py : Process.name() (extension from cmdline),
                          Process.exe() (guess from cmdline, _exe cache)
   transcribed from the code as it is now (configuration [now] below).  No proofs here.

   Python str values are represented by the bytes they encode to (UTF-8 +
   surrogateescape is a bijection); where the code's behaviour depends on
   characters (len(), str.startswith in Process.name()) the model decodes with
   [udecode].  Splitting / searching for the ASCII separators NUL, ' ', '=', '/'
   on the str is the same as on the bytes (an ASCII byte never occurs inside a
   multi-byte sequence and undecodable bytes are >= 0x80). *)
From PV Require Export C12.Lib.

(* Two places of the anchored code were repaired after this check found them
   breaking the property (/repo commits 46827e5 and 76627f6).  [now] is the
   code as it is in /repo; [before_fix] is the code before those commits, kept
   so that the refuted statements stay checkable and a revert is recognised. *)
Record cfg := {
  nl_translate : bool;   (* open_text() without newline="": "\r\n" and "\r" read as "\n" *)
  name_chars : bool      (* Process.name(): len()/startswith on the decoded str (characters) *)
}.
Definition now : cfg := {| nl_translate := false; name_chars := false |}.
Definition before_fix : cfg := {| nl_translate := true; name_chars := true |}.

(* ------------------------------------------------ what the process sees of the kernel *)
(* open(path).read() of a /proc/<pid>/ file *)
Inductive file_res := FData (b : bytes) | FENOENT | FESRCH | FEACCES.
(* os.stat(p) as used by path_exists_strict *)
(* why os.stat() said the path cannot be reached, when it is not a refusal: the path is not
   there (ENOENT/ESRCH), a component is not a directory (ENOTDIR), a symlink loop (ELOOP),
   a component > 255 or the path > 4095 bytes (ENAMETOOLONG), an I/O or stale-handle error ... *)
Inductive probe_errno := ENOENT | ESRCH | ENOTDIR | ELOOP | ENAMETOOLONG | EIO | EOVERFLOW | ESTALE | EOTHER (n : Z).
(* path_exists_strict(p): True / False for ANY OSError that is not a PermissionError / re-raised PermissionError (EACCES, EPERM) *)
Inductive stat_res := SExists | SFails (e : probe_errno) | SDenied.
(* os.readlink(); for a target also what os.stat() says about the string cut at the first NUL *)
Inductive link_res := LTarget (raw : bytes) (st : stat_res) | LENOENT | LESRCH | LEACCES.

(* what is at a path: an executable regular file (mode 0755), a regular file without
   any x bit (0644), a searchable directory (0755); a path that is not listed does not exist *)
Inductive pkind := PRegX | PReg | PDir.

Record pview := {
  v_stat : option bool;     (* /proc/<pid>/stat: Some z = readable, z = state is 'Z';
                               None = lstat()/open() of it fail *)
  v_stat_denied : bool;     (* ... with EACCES/EPERM (true) rather than ENOENT/ESRCH (false); only read when v_stat = None *)
  v_comm : bytes;           (* name between the parentheses of the stat record *)
  v_cmdline : file_res;
  v_environ : file_res;
  v_exe : link_res;
  v_cwd : link_res;
  v_paths : list (bytes * pkind)   (* the file system as far as cmdline()[0] may point into it *)
}.

Fixpoint path_kind (ps : list (bytes * pkind)) (p : bytes) : option pkind :=
  match ps with
  | [] => None
  | (q, k) :: r => if beqb p q then Some k else path_kind r p
  end.
(* os.path.isfile(p): stat succeeds and S_ISREG *)
Definition isfile (v : pview) (p : bytes) : bool :=
  match path_kind (v_paths v) p with Some PRegX | Some PReg => true | _ => false end.
(* os.access(p, os.X_OK): exists and has an x bit (a 0755 directory does) *)
Definition access_x (v : pview) (p : bytes) : bool :=
  match path_kind (v_paths v) p with Some PRegX | Some PDir => true | _ => false end.

(* ------------------------------------------------ wrap_exceptions *)
Inductive raw_exn := RPerm | RLookup | RNotFound.   (* PermissionError, ProcessLookupError, FileNotFoundError *)

(* Process._is_zombie: stat unreadable -> False *)
Definition is_zombie (v : pview) : bool :=
  match v_stat v with Some true => true | _ => false end.

Definition wrap (v : pview) (e : raw_exn) : exn :=
  match e with
  | RPerm => AccessDenied
  | RLookup => if is_zombie v then ZombieProcess else NoSuchProcess
  | RNotFound =>
    if is_zombie v then ZombieProcess
    else match v_stat v with
         | None => NoSuchProcess        (* not os.path.exists(".../stat"): exists() is False for ENOENT and EACCES alike *)
         | Some _ => OSError            (* FileNotFoundError re-raised *)
         end
  end.

Definition read_text (c : cfg) (f : file_res) : bytes + raw_exn :=
  match f with
  | FData b => inl (if nl_translate c then univ_nl b else b)
  | FENOENT => inr RNotFound
  | FESRCH => inr RLookup
  | FEACCES => inr RPerm
  end.

(* ------------------------------------------------ Process.cmdline (_pslinux) *)
(* data is non-empty here *)
Definition cmdline_split (data : bytes) : list bytes :=
  let sep := if ends_with 0 data then 0 else 32 in
  let data' := if ends_with sep data then removelast data else data in
  let parts := split_on sep data' in
  if (sep =? 0) && (length parts =? 1)%nat && contains 32 data'
  then split_on 32 data' else parts.

Definition pl_cmdline (c : cfg) (v : pview) : outcome (list bytes) :=
  match read_text c (v_cmdline v) with
  | inr e => Exc (wrap v e)
  | inl [] => if is_zombie v then Exc ZombieProcess else Val []
  | inl data => Val (cmdline_split data)
  end.

(* ------------------------------------------------ parse_environ_block (_common) *)
(* [rest] = data[pos:]; find()/slices are relative to pos *)
Fixpoint env_loop (fuel : nat) (rest : bytes) (d : list (bytes * bytes)) : outcome (list (bytes * bytes)) :=
  match fuel with
  | O => OutOfModel
  | S f =>
    match find_byte 0 rest with
    | None => Val d                     (* next_pos = -1 <= pos *)
    | Some O => Val d                   (* next_pos = pos: empty entry *)
    | Some n =>
      let entry := firstn n rest in
      let d' := match find_byte 61 entry with
                | Some (S m) => aset (firstn (S m) entry) (skipn (S (S m)) entry) d
                | _ => d                (* no '=' or '=' first: equal_pos <= pos *)
                end in
      env_loop f (skipn (S n) rest) d'
    end
  end.
Definition parse_environ_block (data : bytes) : outcome (list (bytes * bytes)) :=
  env_loop (S (length data)) data [].

Definition pl_environ (c : cfg) (v : pview) : outcome (list (bytes * bytes)) :=
  match read_text c (v_environ v) with
  | inr e => Exc (wrap v e)
  | inl data => parse_environ_block data
  end.

(* ------------------------------------------------ readlink() + Process._readlink(path, fallback="") *)
Definition deleted_sfx : bytes := bs " (deleted)".

(* after ENOENT / ESRCH of readlink(): os.lstat("/proc/<pid>/stat") -- a file INSIDE the
   directory, not os.path.lexists() of the directory: present -> zombie test, then the
   fallback ''; refused -> the PermissionError propagates; absent -> the original error is
   re-raised and wrap_exceptions turns it into NoSuchProcess *)
Definition probe_stat (v : pview) (e : raw_exn) : outcome bytes :=
  match v_stat v with
  | Some z => if z then Exc ZombieProcess else Val []
  | None => if v_stat_denied v then Exc AccessDenied else Exc (wrap v e)
  end.

Definition pl_readlink (v : pview) (l : link_res) : outcome bytes :=
  match l with
  | LTarget raw st =>
    let p := hd [] (split_on 0 raw) in
    if suffixb deleted_sfx p then
      match st with
      | SDenied => Exc AccessDenied     (* path_exists_strict re-raises PermissionError *)
      | SExists => Val p
      | SFails _ => Val (firstn (length p - 10) p)   (* "except OSError: return False", whatever the errno *)
      end
    else Val p
  | LEACCES => Exc AccessDenied
  | LENOENT => probe_stat v RNotFound
  | LESRCH => probe_stat v RLookup
  end.

Definition pl_exe (v : pview) : outcome bytes := pl_readlink v (v_exe v).
Definition pl_cwd (v : pview) : outcome bytes := pl_readlink v (v_cwd v).

(* Process.name (_pslinux): decode(self._parse_stat_file()['name']) *)
Definition pl_name (v : pview) : outcome bytes :=
  match v_stat v with
  | None => if v_stat_denied v then Exc AccessDenied else Exc (wrap v RNotFound)
  | Some _ => Val (v_comm v)
  end.

(* ------------------------------------------------ psutil.Process.name() *)
Definition name_long (c : cfg) (name : bytes) : bool :=
  if name_chars c then (15 <=? ulen name)%nat else (15 <=? length name)%nat.
Definition name_starts (c : cfg) (name ext : bytes) : bool :=
  if name_chars c then prefixb (udecode name) (udecode ext) else prefixb name ext.

Definition fe_name (c : cfg) (v : pview) : outcome bytes :=
  do name <- pl_name v;
  if name_long c name then
    match pl_cmdline c v with
    | Exc AccessDenied | Exc ZombieProcess => Val name
    | Exc e => Exc e
    | OutOfModel => OutOfModel
    | Val [] => Val name
    | Val (a0 :: _) =>
      let ext := basename a0 in
      if name_starts c name ext then Val ext else Val name
    end
  else Val name.

(* ------------------------------------------------ psutil.Process.exe() *)
Definition guess_it (c : cfg) (v : pview) (fallback : outcome bytes) : outcome bytes :=
  match pl_cmdline c v with
  | Exc e => Exc e
  | OutOfModel => OutOfModel
  | Val [] => fallback
  | Val (a0 :: _) =>
    if prefixb [47] a0 && isfile v a0 && access_x v a0 then Val a0 else fallback
  end.

(* state: self._exe ; returns (answer, new state) *)
Definition fe_exe (c : cfg) (cache : option bytes) (v : pview) : outcome bytes * option bytes :=
  match cache with
  | Some e => (Val e, cache)
  | None =>
    match pl_exe v with
    | Exc AccessDenied => (guess_it c v (Exc AccessDenied), None)
    | Exc e => (Exc e, None)
    | OutOfModel => (OutOfModel, None)
    | Val [] =>
      match guess_it c v (Val []) with
      | Exc AccessDenied => (Val [], Some [])
      | Exc e => (Exc e, None)
      | OutOfModel => (OutOfModel, None)
      | Val e => (Val e, Some e)
      end
    | Val e => (Val e, Some e)
    end
  end.

(* ------------------------------------------------ a sequence of public calls on one Process object *)
(* what the object remembers between calls: self._exe (read back by exe()) and self._name
   (written by name(); on POSIX it is read only for error messages and by __str__, never by
   name() itself -- "if WINDOWS and self._name is not None") *)
Record fstate := { s_exe : option bytes; s_name : option bytes }.
Definition st0 : fstate := {| s_exe := None; s_name := None |}.

Inductive op := OpName | OpExe | OpCmdline | OpEnviron | OpCwd
              | OpRepr            (* str(p) / repr(p): calls name() inside oneshot() *)
              | OpAsDictName.     (* p.as_dict(attrs=['name'])['name'], also what process_iter(['name']) stores in .info *)
Inductive res :=
| RBytes (o : outcome bytes)
| RList (o : outcome (list bytes))
| RDict (o : outcome (list (bytes * bytes)))
| ROpt (o : outcome (option bytes))
| RUnit.

Definition remember_name (st : fstate) (r : outcome bytes) : fstate :=
  match r with
  | Val n => {| s_exe := s_exe st; s_name := Some n |}
  | _ => st
  end.
(* name() as a step: the answer is computed from the kernel view alone, then stored *)
Definition fe_name_st (c : cfg) (st : fstate) (v : pview) : outcome bytes * fstate :=
  let r := fe_name c v in (r, remember_name st r).
(* as_dict: AccessDenied / ZombieProcess become ad_value (None) *)
Definition as_dict_value (r : outcome bytes) : outcome (option bytes) :=
  match r with
  | Val n => Val (Some n)
  | Exc AccessDenied | Exc ZombieProcess => Val None
  | Exc e => Exc e
  | OutOfModel => OutOfModel
  end.

Definition do_op (c : cfg) (st : fstate) (v : pview) (o : op) : res * fstate :=
  match o with
  | OpName => let '(r, st') := fe_name_st c st v in (RBytes r, st')
  | OpExe => let '(r, e') := fe_exe c (s_exe st) v in (RBytes r, {| s_exe := e'; s_name := s_name st |})
  | OpCmdline => (RList (pl_cmdline c v), st)
  | OpEnviron => (RDict (pl_environ c v), st)
  | OpCwd => (RBytes (pl_cwd v), st)
  | OpRepr => let '(_, st') := fe_name_st c st v in (RUnit, st')
  | OpAsDictName => let '(r, st') := fe_name_st c st v in (ROpt (as_dict_value r), st')
  end.

Fixpoint run_ops (c : cfg) (st : fstate) (steps : list (pview * op)) : list res :=
  match steps with
  | [] => []
  | (v, o) :: r => let '(x, st') := do_op c st v o in x :: run_ops c st' r
  end.
