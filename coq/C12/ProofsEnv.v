(* C12 -- proofs about environ() / parse_environ_block. *)
From PV Require Import C12.Spec.

Lemma find_byte_none b l : contains b l = false -> find_byte b l = None.
Proof.
  induction l as [|c l IH]; intros H; [reflexivity|].
  rewrite contains_cons in H. apply orb_false_iff in H as [Hc Hl].
  cbn [find_byte]. rewrite Z.eqb_sym, Hc. now rewrite IH.
Qed.


(* what one entry does to the dictionary *)
Definition entry_upd (e : bytes) (d : list (bytes * bytes)) : list (bytes * bytes) :=
  match find_byte 61 e with
  | Some (S m) => aset (firstn (S m) e) (skipn (S (S m)) e) d
  | _ => d
  end.
Definition upd (d : list (bytes * bytes)) (i : eitem) : list (bytes * bytes) :=
  match i with EKV n v => aset n v d | EJunk _ => d end.

Lemma env_loop_step f e rest d :
  e <> [] -> contains 0 e = false ->
  env_loop (S f) (e ++ 0 :: rest) d = env_loop f rest (entry_upd e d).
Proof.
  intros Hne H0. cbn [env_loop]. rewrite find_byte_app by exact H0.
  destruct e as [|x e']; [congruence|].
  remember (x :: e') as e eqn:He.
  assert (Hl : length e = S (length e')) by (subst; reflexivity).
  rewrite Hl. rewrite <- Hl. rewrite firstn_len_app, skipn_len_app. reflexivity.
Qed.

Lemma entry_upd_item i d : item_ok i = true -> entry_upd (k_item i) d = upd d i.
Proof.
  destruct i as [n v|s]; cbn [item_ok k_item upd]; intros H.
  - apply andb_true_iff in H as [H Hv]. apply andb_true_iff in H as [H H61].
    apply andb_true_iff in H as [Hne Hn0]. apply negb_true_iff in H61.
    unfold entry_upd. rewrite find_byte_app by exact H61.
    destruct n as [|x n']; [discriminate|].
    remember (x :: n') as n eqn:Hn.
    assert (Hl : length n = S (length n')) by (subst; reflexivity).
    rewrite Hl. rewrite <- Hl. rewrite firstn_len_app, skipn_len_app. reflexivity.
  - apply andb_true_iff in H as [H Hs]. unfold entry_upd.
    apply orb_true_iff in Hs as [Hs|Hs].
    + apply negb_true_iff in Hs. now rewrite find_byte_none.
    + destruct s as [|x s']; [discriminate|]. cbn [prefixb] in Hs.
      apply andb_true_iff in Hs as [Hx _]. apply Z.eqb_eq in Hx. subst x. reflexivity.
Qed.

Lemma item_nul_free i : item_ok i = true -> k_item i <> [] /\ contains 0 (k_item i) = false.
Proof.
  destruct i as [n v|s]; cbn [item_ok k_item]; intros H.
  - apply andb_true_iff in H as [H Hv]. apply andb_true_iff in H as [H H61].
    apply andb_true_iff in H as [Hne Hn0]. unfold nul_free in *.
    apply negb_true_iff in Hn0, Hv. split.
    + destruct n; discriminate.
    + rewrite contains_app, Hn0, contains_cons, Hv. reflexivity.
  - apply andb_true_iff in H as [H _]. apply andb_true_iff in H as [Hne Hs0].
    unfold nul_free in Hs0. apply negb_true_iff in Hs0. split; [destruct s; [discriminate|congruence]|exact Hs0].
Qed.

Lemma env_loop_items items : forall fuel d tl,
  forallb item_ok items = true -> (length items < fuel)%nat ->
  env_loop fuel (k_items items ++ tl) d = env_loop (fuel - length items) tl (fold_left upd items d).
Proof.
  induction items as [|i items IH]; intros fuel d tl Hok Hf.
  - cbn [k_items map concat app length fold_left]. now rewrite Nat.sub_0_r.
  - cbn [forallb] in Hok. apply andb_true_iff in Hok as [Hi Hr].
    destruct fuel as [|f]; [cbn in Hf; lia|].
    destruct (item_nul_free i Hi) as [Hne H0].
    unfold k_items. cbn [map concat]. fold (k_items items).
    rewrite <- !app_assoc. cbn [app].
    rewrite env_loop_step by assumption. rewrite entry_upd_item by exact Hi.
    cbn [length fold_left Nat.sub]. apply IH; [exact Hr|cbn in Hf; lia].
Qed.

Lemma env_loop_tail f t d : tail_ok t = true -> env_loop (S f) (k_tail t) d = Val d.
Proof.
  destruct t as [|g|g]; cbn [tail_ok k_tail]; intros H.
  - reflexivity.
  - cbn. reflexivity.
  - unfold nul_free in H. apply negb_true_iff in H. cbn [env_loop]. now rewrite find_byte_none.
Qed.

Lemma k_items_length items : (length items <= length (k_items items))%nat.
Proof.
  induction items as [|i items IH]; [cbn; lia|].
  unfold k_items. cbn [map concat]. fold (k_items items). rewrite !app_length. cbn [length]. lia.
Qed.

Lemma parse_environ_items r :
  wf_env r = true ->
  parse_environ_block (k_environ r) = Val (fold_left upd (e_items r) []).
Proof.
  unfold wf_env. intros H. apply andb_true_iff in H as [Hi Ht].
  unfold parse_environ_block, k_environ.
  rewrite env_loop_items; [|exact Hi|].
  - remember (S (length (k_items (e_items r) ++ k_tail (e_tail r))) - length (e_items r))%nat as f eqn:Hf.
    destruct f as [|f'].
    + pose proof (k_items_length (e_items r)). rewrite app_length in Hf. lia.
    + now apply env_loop_tail.
  - pose proof (k_items_length (e_items r)). rewrite app_length. lia.
Qed.

(* ---------------------------------------------------------------- the dictionary that comes out *)
Lemma fold_get items : forall d k,
  aget k (fold_left upd items d) =
  match env_last k items with Some v => Some v | None => aget k d end.
Proof.
  induction items as [|i items IH]; intros d k; [reflexivity|].
  cbn [fold_left env_last]. rewrite IH.
  destruct (env_last k items); [reflexivity|].
  destruct i as [n v|s]; cbn [upd]; [|reflexivity].
  rewrite aget_aset. destruct (beqb k n); reflexivity.
Qed.

Lemma fold_nodup items : forall d, NoDup (map fst d) -> NoDup (map fst (fold_left upd items d)).
Proof.
  induction items as [|i items IH]; intros d H; [exact H|].
  cbn [fold_left]. apply IH. destruct i; cbn [upd]; [now apply aset_nodup|exact H].
Qed.

Lemma environ_lookup : forall c r,
  wf_env r = true ->
  (nl_translate c = true -> no_cr (k_environ r) = true) ->
  exists d, pl_environ c (view_env r) = Val d /\ NoDup (map fst d) /\
            forall k, aget k d = env_last k (e_items r).
Proof.
  intros c r Hwf Hcr. exists (fold_left upd (e_items r) []).
  split; [|split].
  - unfold pl_environ. cbn [view_env v_environ read_text].
    assert (E : (if nl_translate c then univ_nl (k_environ r) else k_environ r) = k_environ r).
    { destruct (nl_translate c); [|reflexivity]. apply univ_nl_id.
      specialize (Hcr eq_refl). unfold no_cr in Hcr. now apply negb_true_iff in Hcr. }
    rewrite E. now apply parse_environ_items.
  - apply fold_nodup. constructor.
  - intros k. rewrite fold_get. destruct (env_last k (e_items r)); reflexivity.
Qed.

(* ---------------------------------------------------------------- the listed form of the demanded dictionary *)
Lemma has_name_last n items : has_name n items = true -> exists v, env_last n items = Some v.
Proof.
  induction items as [|i items IH]; [discriminate|].
  cbn [has_name existsb env_last]. intros H.
  destruct (env_last n items) as [v|] eqn:E; [eauto|].
  apply orb_true_iff in H as [H|H].
  - destruct i as [n' v'|s]; [|discriminate]. rewrite H. eauto.
  - destruct (IH H) as [v Hv]. discriminate.
Qed.

Lemma last_has_name n items : forall v, env_last n items = Some v -> has_name n items = true.
Proof.
  induction items as [|i items IH]; intros v; [discriminate|].
  cbn [has_name existsb env_last].
  destruct (env_last n items) as [v'|] eqn:E.
  - intros _. unfold has_name in IH. rewrite (IH v' eq_refl). apply orb_true_r.
  - destruct i as [n' v'|s]; [|discriminate]. destruct (beqb n n'); [reflexivity|discriminate].
Qed.

Lemma spec_env_keys x items : In x (map fst (spec_env items)) -> has_name x items = true.
Proof.
  induction items as [|i items IH]; [intros []|].
  destruct i as [n v|s]; cbn [spec_env].
  - destruct (has_name n items) eqn:E.
    + intros H. cbn [has_name existsb]. unfold has_name in IH. rewrite (IH H). apply orb_true_r.
    + cbn [map fst In]. intros [H|H].
      * subst. cbn [has_name existsb]. now rewrite beqb_refl.
      * cbn [has_name existsb]. unfold has_name in IH. rewrite (IH H). apply orb_true_r.
  - intros H. cbn [has_name existsb]. exact (IH H).
Qed.

Lemma spec_env_lookup : forall items k, aget k (spec_env items) = env_last k items.
Proof.
  induction items as [|i items IH]; intros k; [reflexivity|].
  destruct i as [n v|s]; cbn [spec_env env_last].
  - destruct (has_name n items) eqn:E.
    + rewrite IH. destruct (env_last k items) eqn:El; [reflexivity|].
      destruct (beqb k n) eqn:Ek; [|reflexivity].
      apply beqb_eq in Ek. subst k. destruct (has_name_last n items E) as [v' Hv']. congruence.
    + cbn [aget]. rewrite IH. destruct (beqb k n) eqn:Ek.
      * apply beqb_eq in Ek. subst k.
        destruct (env_last n items) as [v'|] eqn:El; [|reflexivity].
        apply last_has_name in El. congruence.
      * destruct (env_last k items); reflexivity.
  - rewrite IH. destruct (env_last k items); reflexivity.
Qed.

Lemma spec_env_nodup : forall items, NoDup (map fst (spec_env items)).
Proof.
  induction items as [|i items IH]; [constructor|].
  destruct i as [n v|s]; cbn [spec_env]; [|exact IH].
  destruct (has_name n items) eqn:E; [exact IH|].
  cbn [map fst]. constructor; [|exact IH].
  intros H. apply spec_env_keys in H. congruence.
Qed.

Lemma environ_spec_list : forall items,
  NoDup (map fst (spec_env items)) /\ forall k, aget k (spec_env items) = env_last k items.
Proof. intros items. split; [apply spec_env_nodup|apply spec_env_lookup]. Qed.

Lemma environ_lookup_now : forall r,
  wf_env r = true ->
  exists d, pl_environ now (view_env r) = Val d /\ NoDup (map fst d) /\
            forall k, aget k d = env_last k (e_items r).
Proof. intros r H1. apply environ_lookup; auto. intros H; discriminate H. Qed.

(* ---------------------------------------------------------------- the code before commit 46827e5: refuted *)
Lemma environ_cr_refuted :
  exists r, wf_env r = true /\
            forall d, pl_environ before_fix (view_env r) = Val d -> aget (bs "A") d <> env_last (bs "A") (e_items r).
Proof.
  exists {| e_items := [EKV (bs "A") [49; 13; 10; 50]]; e_tail := ENone |}.
  split; [reflexivity|]. intros d H. vm_compute in H. inversion H; subst. vm_compute. congruence.
Qed.

Example environ_example :
  let r := {| e_items := [EKV (bs "PATH") (bs "/bin"); EJunk (bs "junk"); EKV (bs "A") (bs "x=y");
                          EJunk (bs "=z"); EKV (bs "PATH") [255]; EKV (bs "B") []];
              e_tail := EEnd (bs "C=1") |} in
  wf_env r = true /\ no_cr (k_environ r) = true /\ env_last (bs "PATH") (e_items r) = Some [255]
  /\ env_last (bs "C") (e_items r) = None.
Proof. cbv zeta. repeat split. Qed.
