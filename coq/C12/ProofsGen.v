(* The programs translated from the current source (Gen/C12_Tables.v) compute the model's functions
   on every input: Process.cmdline() of _pslinux.py = Model.pl_cmdline, Process.name() of
   __init__.py = Model.fe_name (+ what it stores in self._name), both at configuration [now]. *)
From PV Require Import C12.PyGen Gen.C12_Tables.

(* ------------------------------------------------ Process.cmdline() *)
(* on the bytes of the file and the answer of _raise_if_zombie(): the empty file is the zombie test,
   any other one goes through the separator rule *)
Theorem gen_cmdline_split : forall file zombie,
  run_cmdline gen_cmdline file zombie =
  match file with
  | [] => if zombie then Exc ZombieProcess else Val []
  | _ => Val (cmdline_split file)
  end.
Proof.
  intros file zombie. unfold run_cmdline, gen_cmdline.
  destruct file as [|b0 r].
  - destruct zombie; reflexivity.
  - unfold cmdline_split.
    cbv -[ends_with split_on contains removelast length Nat.eqb].
    destruct (ends_with 0 (b0 :: r)) eqn:E0.
    + cbv -[ends_with split_on contains removelast length Nat.eqb]. rewrite E0.
      match goal with |- context [Nat.eqb ?a 1] => destruct (Nat.eqb a 1) end; [|reflexivity].
      destruct (contains 32 (removelast (b0 :: r))); reflexivity.
    + cbv -[ends_with split_on contains removelast length Nat.eqb].
      destruct (ends_with 32 (b0 :: r)); reflexivity.
Qed.

(* through wrap_exceptions and the text-mode read: the whole accessor *)
Theorem gen_cmdline_correct : forall v file,
  v_cmdline v = FData file ->
  run_cmdline gen_cmdline file (is_zombie v) = pl_cmdline now v.
Proof.
  intros v file H. rewrite gen_cmdline_split. unfold pl_cmdline, read_text. rewrite H.
  cbn [nl_translate now]. destruct file; reflexivity.
Qed.

(* ------------------------------------------------ psutil.Process.name() *)
Theorem gen_name_correct : forall v stored,
  run_name gen_name stored (pl_name v) (pl_cmdline now v) =
  omap (fun n => (n, Some n)) (fe_name now v).
Proof.
  intros v stored. unfold run_name, gen_name, fe_name, name_long, name_starts.
  cbn [name_chars now].
  cbn [run_list nexec neval].
  destruct (pl_name v) as [nm|e|]; cbn [obind omap]; try reflexivity.
  cbn [run_list nexec neval option_map n_name n_cmdline n_ext n_stored].
  destruct (15 <=? length nm)%nat eqn:E15.
  - cbn [run_list nexec neval option_map n_name n_cmdline n_ext n_stored].
    destruct (pl_cmdline now v) as [[|a0 l]|e|].
    + cbn [run_list nexec neval option_map n_name n_cmdline n_ext n_stored obind omap]. reflexivity.
    + cbn [run_list nexec neval option_map n_name n_cmdline n_ext n_stored].
      destruct (prefixb nm (basename a0)) eqn:EP;
        cbn [run_list nexec neval option_map n_name n_cmdline n_ext n_stored obind omap]; reflexivity.
    + destruct e; cbn [existsb ecatches orb run_list nexec neval option_map n_name n_cmdline n_ext n_stored obind omap]; reflexivity.
    + reflexivity.
  - cbn [run_list nexec neval option_map n_name n_cmdline n_ext n_stored obind omap]. reflexivity.
Qed.

(* as the step of Model.run_ops: the answer and the object's memory after the call *)
Theorem gen_name_step : forall v st,
  match run_name gen_name (s_name st) (pl_name v) (pl_cmdline now v) with
  | Val (n, m) => fst (fe_name_st now st v) = Val n /\ s_name (snd (fe_name_st now st v)) = m
  | Exc e => fst (fe_name_st now st v) = Exc e /\ snd (fe_name_st now st v) = st
  | OutOfModel => fst (fe_name_st now st v) = OutOfModel
  end.
Proof.
  intros v st. rewrite gen_name_correct. unfold fe_name_st.
  destruct (fe_name now v) as [n|e|]; cbn [omap obind fst snd remember_name s_name]; auto.
Qed.

(* both translated bodies composed *)
Theorem gen_name_over_gen_cmdline : forall v file stored,
  v_cmdline v = FData file ->
  run_name gen_name stored (pl_name v) (run_cmdline gen_cmdline file (is_zombie v)) =
  omap (fun n => (n, Some n)) (fe_name now v).
Proof. intros v file stored H. rewrite (gen_cmdline_correct v file H). apply gen_name_correct. Qed.
