(* C12 -- library: the text layer between a /proc file and the Python str psutil
   works on (universal-newline translation of text-mode open(), UTF-8 decoding
   with the surrogateescape handler), os.path.basename, small list lemmas. *)
From PV Require Export Base.Bytes.
From Coq Require Import ZifyBool.

(* ------------------------------------------------------------ text-mode read
   open(fname, encoding=..., errors=...) has newline=None: on input "\r\n" and
   a lone "\r" are both delivered as "\n". *)
Fixpoint univ_nl (l : bytes) : bytes :=
  match l with
  | [] => []
  | c :: r =>
    if c =? 13 then
      match r with
      | d :: r' => if d =? 10 then 10 :: univ_nl r' else 10 :: univ_nl r
      | [] => [10]
      end
    else c :: univ_nl r
  end.

Lemma univ_nl_id l : contains 13 l = false -> univ_nl l = l.
Proof.
  induction l as [|c l IH]; intros H; [reflexivity|].
  rewrite contains_cons in H. apply orb_false_iff in H as [Hc Hl].
  cbn [univ_nl]. rewrite Z.eqb_sym, Hc. now rewrite IH.
Qed.

(* ------------------------------------------------------------ UTF-8 + surrogateescape
   bytes.decode("utf-8", "surrogateescape"): every maximal strictly valid
   sequence gives its code point; every other byte b gives U+DC00+b and decoding
   resumes at the next byte. *)
Definition in_rng (lo hi b : Z) : bool := (lo <=? b) && (b <=? hi).
Definition is_cont (b : Z) : bool := in_rng 128 191 b.

(* strictly valid sequence at the head of l : (code point, number of bytes) *)
Definition useq (l : bytes) : option (Z * nat) :=
  match l with
  | [] => None
  | b0 :: r =>
    if b0 <? 128 then Some (b0, 1%nat)
    else if in_rng 194 223 b0 then
      match r with
      | b1 :: _ => if is_cont b1 then Some ((b0 - 192) * 64 + (b1 - 128), 2%nat) else None
      | _ => None
      end
    else if in_rng 224 239 b0 then
      match r with
      | b1 :: b2 :: _ =>
        if in_rng (if b0 =? 224 then 160 else 128) (if b0 =? 237 then 159 else 191) b1 && is_cont b2
        then Some ((b0 - 224) * 4096 + (b1 - 128) * 64 + (b2 - 128), 3%nat) else None
      | _ => None
      end
    else if in_rng 240 244 b0 then
      match r with
      | b1 :: b2 :: b3 :: _ =>
        if in_rng (if b0 =? 240 then 144 else 128) (if b0 =? 244 then 143 else 191) b1
           && is_cont b2 && is_cont b3
        then Some ((b0 - 240) * 262144 + (b1 - 128) * 4096 + (b2 - 128) * 64 + (b3 - 128), 4%nat)
        else None
      | _ => None
      end
    else None
  end.

Fixpoint udec_aux (skip : nat) (l : bytes) : list Z :=
  match l with
  | [] => []
  | b :: r =>
    match skip with
    | S k => udec_aux k r
    | O =>
      match useq l with
      | Some (cp, n) => cp :: udec_aux (n - 1) r
      | None => (56320 + b) :: udec_aux 0 r
      end
    end
  end.
Definition udecode (l : bytes) : list Z := udec_aux 0 l.
(* len() of the decoded str *)
Definition ulen (l : bytes) : nat := length (udecode l).

Definition is_ascii (l : bytes) : bool := forallb (fun b => (0 <=? b) && (b <? 128)) l.

Lemma udecode_cons_ascii b r : b <? 128 = true -> udecode (b :: r) = b :: udecode r.
Proof. intros H. unfold udecode. cbn [udec_aux useq]. rewrite H. reflexivity. Qed.

Lemma udecode_ascii_app a r : is_ascii a = true -> udecode (a ++ r) = a ++ udecode r.
Proof.
  induction a as [|b a IH]; intros H; [reflexivity|].
  cbn [is_ascii forallb] in H. apply andb_true_iff in H as [Hb Ha].
  apply andb_true_iff in Hb as [_ Hb].
  cbn [app]. rewrite udecode_cons_ascii by exact Hb. f_equal. now apply IH.
Qed.

Lemma udecode_ascii a : is_ascii a = true -> udecode a = a.
Proof.
  intros H. rewrite <- (app_nil_r a) at 1. rewrite udecode_ascii_app by exact H.
  now rewrite app_nil_r.
Qed.

(* the first character of a string that starts with a non-ASCII byte is not ASCII *)
Lemma udecode_head_nonascii b r :
  128 <= b -> exists cp t, udecode (b :: r) = cp :: t /\ 128 <= cp.
Proof.
  intros Hb. unfold udecode. cbn [udec_aux].
  destruct (useq (b :: r)) as [[cp n]|] eqn:E.
  - exists cp, (udec_aux (n - 1) r). split; [reflexivity|].
    cbn [useq] in E.
    destruct (b <? 128) eqn:E0; [lia|].
    destruct (in_rng 194 223 b) eqn:E1.
    { destruct r as [|b1 r1]; [discriminate|].
      destruct (is_cont b1) eqn:C1; [|discriminate].
      inversion E; subst. unfold is_cont, in_rng in *. lia. }
    destruct (in_rng 224 239 b) eqn:E2.
    { destruct r as [|b1 [|b2 r2]]; try discriminate.
      match type of E with (if ?c then _ else _) = _ => destruct c eqn:C end; [|discriminate].
      inversion E; subst. apply andb_true_iff in C as [C1 C2].
      unfold is_cont, in_rng in *. destruct (b =? 224) eqn:B1; destruct (b =? 237) eqn:B2; lia. }
    destruct (in_rng 240 244 b) eqn:E3; [|discriminate].
    destruct r as [|b1 [|b2 [|b3 r3]]]; try discriminate.
    match type of E with (if ?c then _ else _) = _ => destruct c eqn:C end; [|discriminate].
    inversion E; subst. apply andb_true_iff in C as [C12 C3]. apply andb_true_iff in C12 as [C1 C2].
    unfold is_cont, in_rng in *. destruct (b =? 240) eqn:B1; destruct (b =? 244) eqn:B2; lia.
  - exists (56320 + b), (udec_aux 0 r). split; [reflexivity|lia].
Qed.

(* for an ASCII string a: the decoded text of l starts with a  <->  l starts with a *)
Lemma prefix_udecode_ascii a l :
  is_ascii a = true ->
  prefixb (udecode a) (udecode l) = prefixb a l.
Proof.
  intros Ha. rewrite (udecode_ascii a Ha). revert l.
  induction a as [|x a IH]; intros l; [reflexivity|].
  cbn [is_ascii forallb] in Ha. apply andb_true_iff in Ha as [Hx Ha].
  apply andb_true_iff in Hx as [Hx0 Hx].
  destruct l as [|y l]; [reflexivity|].
  destruct (y <? 128) eqn:Ey.
  - rewrite udecode_cons_ascii by exact Ey. cbn [prefixb]. f_equal. now apply IH.
  - destruct (udecode_head_nonascii y l) as [cp [t [Hd Hcp]]]; [lia|].
    rewrite Hd. cbn [prefixb].
    assert (x =? cp = false) as -> by lia.
    assert (x =? y = false) as -> by lia. reflexivity.
Qed.

Lemma ulen_ascii a : is_ascii a = true -> ulen a = length a.
Proof. intros H. unfold ulen. now rewrite udecode_ascii. Qed.

(* str.encode("utf-8", "surrogateescape") (os.fsencode): a lone surrogate U+DC80..U+DCFF
   becomes the byte it stands for, any other surrogate or a value outside the code space is
   an error (None), everything else is encoded as UTF-8.  Round trip: C12/Codec.v. *)
Definition uenc1 (cp : Z) : option bytes :=
  if in_rng 0 127 cp then Some [cp]
  else if in_rng 56448 56575 cp then Some [cp - 56320]
  else if in_rng 55296 57343 cp then None
  else if in_rng 128 2047 cp then Some [192 + cp / 64; 128 + cp mod 64]
  else if in_rng 2048 65535 cp then Some [224 + cp / 4096; 128 + (cp / 64) mod 64; 128 + cp mod 64]
  else if in_rng 65536 1114111 cp
       then Some [240 + cp / 262144; 128 + (cp / 4096) mod 64; 128 + (cp / 64) mod 64; 128 + cp mod 64]
  else None.

Fixpoint uencode (l : list Z) : option bytes :=
  match l with
  | [] => Some []
  | cp :: r =>
    match uenc1 cp, uencode r with
    | Some a, Some b => Some (a ++ b)
    | _, _ => None
    end
  end.

(* ------------------------------------------------------------ os.path.basename *)
Definition basename (p : bytes) : bytes :=
  match rfind_byte 47 p with Some n => skipn (S n) p | None => p end.

(* ------------------------------------------------------------ association lists (dict keyed by str) *)
Fixpoint aset (k v : bytes) (d : list (bytes * bytes)) : list (bytes * bytes) :=
  match d with
  | [] => [(k, v)]
  | (k', v') :: r => if beqb k k' then (k, v) :: r else (k', v') :: aset k v r
  end.
Fixpoint aget (k : bytes) (d : list (bytes * bytes)) : option bytes :=
  match d with
  | [] => None
  | (k', v') :: r => if beqb k k' then Some v' else aget k r
  end.

Lemma beqb_false_neq a b : beqb a b = false <-> a <> b.
Proof.
  split.
  - intros H E. apply beqb_eq in E. congruence.
  - intros H. destruct (beqb a b) eqn:E; auto. apply beqb_eq in E. contradiction.
Qed.
Lemma beqb_sym a b : beqb a b = beqb b a.
Proof.
  destruct (beqb a b) eqn:E.
  - apply beqb_eq in E. subst. symmetry. apply beqb_refl.
  - symmetry. apply beqb_false_neq. apply beqb_false_neq in E. congruence.
Qed.

Lemma aget_aset k k' v d :
  aget k (aset k' v d) = if beqb k k' then Some v else aget k d.
Proof.
  induction d as [|[k2 v2] d IH]; cbn [aset aget].
  - reflexivity.
  - destruct (beqb k' k2) eqn:E.
    + apply beqb_eq in E. subst k2. cbn [aget]. destruct (beqb k k'); reflexivity.
    + cbn [aget]. destruct (beqb k k2) eqn:E2.
      * apply beqb_eq in E2. subst k2. rewrite beqb_sym, E. reflexivity.
      * exact IH.
Qed.

Lemma aset_keys_in k v d x : In x (map fst (aset k v d)) -> x = k \/ In x (map fst d).
Proof.
  induction d as [|[k2 v2] d IH]; cbn [aset map fst In].
  - intros [H|[]]; auto.
  - destruct (beqb k k2) eqn:E.
    + apply beqb_eq in E. subst. cbn [map fst In]. intros [H|H]; auto.
    + cbn [map fst In]. intros [H|H]; auto. apply IH in H as [H|H]; auto.
Qed.

Lemma aset_nodup k v d : NoDup (map fst d) -> NoDup (map fst (aset k v d)).
Proof.
  induction d as [|[k2 v2] d IH]; intros H; cbn [aset].
  - cbn. constructor; [intros []|constructor].
  - cbn [map fst] in H. inversion H as [|? ? Hnin Hnd]; subst.
    destruct (beqb k k2) eqn:E.
    + apply beqb_eq in E. subst. cbn [map fst]. constructor; assumption.
    + cbn [map fst]. constructor.
      * intros Hin. apply aset_keys_in in Hin as [Hin|Hin]; [|contradiction].
        subst. rewrite beqb_refl in E. discriminate.
      * now apply IH.
Qed.

(* ------------------------------------------------------------ list helpers *)
Lemma firstn_len_app {A} (a b : list A) : firstn (length a) (a ++ b) = a.
Proof. induction a as [|x a IH]; [destruct b; reflexivity|]. cbn. now rewrite IH. Qed.
Lemma skipn_len_app {A} (a b : list A) x : skipn (S (length a)) (a ++ x :: b) = b.
Proof. induction a as [|y a IH]; [reflexivity|]. exact IH. Qed.

(* str.endswith(one character); linear (List.rev is quadratic, and cmdline files reach hundreds of KiB) *)
Fixpoint ends_with (c : Z) (l : bytes) : bool :=
  match l with
  | [] => false
  | x :: r => match r with [] => x =? c | _ :: _ => ends_with c r end
  end.

Lemma ends_with_snoc c x d : ends_with c (x ++ [d]) = (d =? c).
Proof.
  induction x as [|y x IH]; [reflexivity|].
  cbn [app ends_with]. destruct (x ++ [d]) eqn:E; [destruct x; discriminate|]. exact IH.
Qed.

Lemma removelast_snoc {A} (x : list A) d : removelast (x ++ [d]) = x.
Proof. apply removelast_last. Qed.

Lemma contains_concat b (ls : list bytes) :
  contains b (concat ls) = existsb (contains b) ls.
Proof.
  induction ls as [|l ls IH]; [reflexivity|].
  cbn [concat existsb]. now rewrite contains_app, IH.
Qed.

Lemma contains_join b sep ts :
  contains b sep = false -> forallb (fun t => negb (contains b t)) ts = true ->
  contains b (join sep ts) = false.
Proof.
  intros Hs. induction ts as [|t ts IH]; intros H; [reflexivity|].
  cbn [forallb] in H. apply andb_true_iff in H as [Ht Hts]. apply negb_true_iff in Ht.
  destruct ts as [|u us]; [exact Ht|].
  change (join sep (t :: u :: us)) with (t ++ sep ++ join sep (u :: us)).
  rewrite !contains_app, Ht, Hs, IH by exact Hts. reflexivity.
Qed.
