(* C12 -- proofs about exe()/cwd() (readlink cleanup, withheld links, fallback to
   cmdline()[0], the _exe cache) and the extended name(). *)
From PV Require Import C12.Spec C12.Proofs C12.ProofsEnv.

(* ---------------------------------------------------------------- readlink cleanup *)
Lemma shown_nul_free r : nul_free (l_path r) = true -> contains 0 (k_shown r) = false.
Proof.
  unfold nul_free, k_shown. intros H. apply negb_true_iff in H.
  rewrite contains_app, H. destruct (l_unlinked r); reflexivity.
Qed.

Lemma cut_shown r : nul_free (l_path r) = true -> hd [] (split_on 0 (k_link r)) = k_shown r.
Proof.
  intros H. pose proof (shown_nul_free r H) as H0. unfold k_link.
  destruct (l_garbage r) as [g|].
  - now rewrite split_on_app.
  - rewrite app_nil_r. now rewrite split_on_nosep.
Qed.

Lemma suffixb_app s p : suffixb s (p ++ s) = true.
Proof. unfold suffixb. rewrite rev_app_distr. apply prefixb_app. Qed.

Lemma link_cleanup : forall v r,
  wf_link r = true -> pl_readlink v (to_link r) = Val (l_path r).
Proof.
  intros v r H. unfold wf_link in H.
  apply andb_true_iff in H as [H Hst]. apply andb_true_iff in H as [Hnf Hne].
  unfold to_link. cbn [pl_readlink]. rewrite cut_shown by exact Hnf.
  unfold k_shown in *. destruct (l_unlinked r).
  - rewrite suffixb_app. apply negb_true_iff in Hst. rewrite Hst.
    rewrite app_length. change (length deleted_sfx) with 10%nat.
    rewrite Nat.add_sub. now rewrite firstn_len_app.
  - rewrite app_nil_r. destruct (suffixb deleted_sfx (l_path r)); [|reflexivity].
    now rewrite Hst.
Qed.

(* the answer does not depend on WHICH errno said "not there", and is never an exception *)
Lemma probe_errno_irrelevant : forall v raw e1 e2,
  pl_readlink v (LTarget raw (SFails e1)) = pl_readlink v (LTarget raw (SFails e2)).
Proof. intros. cbn [pl_readlink]. destruct (suffixb deleted_sfx (hd [] (split_on 0 raw))); reflexivity. Qed.

Lemma probe_failure_is_an_answer : forall v raw e,
  exists p, pl_readlink v (LTarget raw (SFails e)) = Val p
            /\ (v_exe v = LTarget raw (SFails e) -> pl_exe v = Val p)
            /\ (v_cwd v = LTarget raw (SFails e) -> pl_cwd v = Val p).
Proof.
  intros v raw e. cbn [pl_readlink].
  destruct (suffixb deleted_sfx (hd [] (split_on 0 raw))) eqn:E.
  - eexists. split; [reflexivity|]. split; intros H; unfold pl_exe, pl_cwd; rewrite H; cbn [pl_readlink]; now rewrite E.
  - eexists. split; [reflexivity|]. split; intros H; unfold pl_exe, pl_cwd; rewrite H; cbn [pl_readlink]; now rewrite E.
Qed.

(* an unlinked target whose literal marked path cannot be reached for any reason: the path without the marker *)
Lemma link_cleanup_any_errno : forall v path garbage e,
  nul_free path = true -> path <> [] ->
  pl_readlink v (to_link {| l_path := path; l_unlinked := true; l_garbage := garbage; l_lit_exists := false; l_errno := e |})
  = Val path.
Proof.
  intros v path garbage e Hn Hne. apply link_cleanup. unfold wf_link. cbn [l_path l_unlinked l_lit_exists].
  rewrite Hn. destruct path; [congruence|reflexivity].
Qed.

Definition withheld (l : link_res) : bool :=
  match l with LENOENT | LESRCH => true | _ => false end.

Lemma link_withheld : forall v l z,
  withheld l = true -> v_stat v = Some z ->
  pl_readlink v l = if z then Exc ZombieProcess else Val [].
Proof. intros v l z Hl Hs. destruct l; try discriminate; cbn [pl_readlink]; unfold probe_stat; now rewrite Hs. Qed.

Lemma link_gone : forall v l,
  withheld l = true -> v_stat v = None -> v_stat_denied v = false ->
  pl_readlink v l = Exc NoSuchProcess.
Proof.
  intros v l Hl Hs Hd. destruct l; try discriminate; cbn [pl_readlink]; unfold probe_stat, wrap, is_zombie;
    now rewrite Hs, Hd.
Qed.

Lemma link_probe_denied : forall v l,
  withheld l = true -> v_stat v = None -> v_stat_denied v = true ->
  pl_readlink v l = Exc AccessDenied.
Proof.
  intros v l Hl Hs Hd. destruct l; try discriminate; cbn [pl_readlink]; unfold probe_stat; now rewrite Hs, Hd.
Qed.

(* ---------------------------------------------------------------- exe(): fallback and cache *)
Lemma pl_cmdline_proc c r :
  pl_cmdline c (view_proc r) = pl_cmdline c (view_cmd (p_cmd r) false).
Proof. apply pl_cmdline_ext; reflexivity. Qed.

(* isabs, isfile and access(X_OK) together = "an absolute path to an executable regular file" *)
Lemma guess_oracle r a0 :
  prefixb [47] a0 && isfile (view_proc r) a0 && access_x (view_proc r) a0 = exec_file (p_paths r) a0.
Proof.
  unfold isfile, access_x, exec_file. cbn [view_proc v_paths].
  destruct (prefixb [47] a0); [|reflexivity]. cbn [andb].
  destruct (path_kind (p_paths r) a0) as [[| |]|]; reflexivity.
Qed.

Lemma guess_it_proc c r fb :
  wf_cmd (p_cmd r) = true -> (nl_translate c = true -> cmd_no_cr (p_cmd r) = true) ->
  guess_it c (view_proc r) fb =
  match spec_cmdline (p_cmd r) with
  | a0 :: _ => if exec_file (p_paths r) a0 then Val a0 else fb
  | [] => fb
  end.
Proof.
  intros Hcmd Hcr. unfold guess_it. rewrite pl_cmdline_proc, cmdline_live_spec by assumption.
  destruct (spec_cmdline (p_cmd r)) as [|a0 rest]; [reflexivity|].
  now rewrite guess_oracle.
Qed.

(* what self._exe holds after the first call *)
Definition spec_state (r : kproc) : option bytes :=
  if spec_cached r then match spec_exe r with Val e => Some e | _ => None end else None.

Lemma exe_spec : forall c r,
  wf_proc r = true -> (nl_translate c = true -> cmd_no_cr (p_cmd r) = true) ->
  fe_exe c None (view_proc r) = (spec_exe r, spec_state r).
Proof.
  intros c r Hwf Hcr. unfold wf_proc in Hwf.
  apply andb_true_iff in Hwf as [Hwf _]. apply andb_true_iff in Hwf as [Hcmd Hlink].
  unfold fe_exe, pl_exe, spec_state, spec_cached, spec_exe.
  destruct (p_exe r) as [l|] eqn:El.
  - cbn [view_proc v_exe]. rewrite El. rewrite link_cleanup by exact Hlink.
    unfold wf_link in Hlink. apply andb_true_iff in Hlink as [Hl _]. apply andb_true_iff in Hl as [_ Hne].
    destruct (l_path l); [discriminate|reflexivity].
  - destruct (p_how r) eqn:Eh.
    + assert (Hw : pl_readlink (view_proc r) (v_exe (view_proc r)) = Val []).
      { rewrite (link_withheld _ _ false); [reflexivity| |reflexivity]. cbn [view_proc v_exe]. now rewrite El, Eh. }
      rewrite Hw, guess_it_proc by assumption.
      destruct (spec_cmdline (p_cmd r)) as [|a0 rest]; [reflexivity|].
      destruct (exec_file (p_paths r) a0); reflexivity.
    + assert (Hw : pl_readlink (view_proc r) (v_exe (view_proc r)) = Val []).
      { rewrite (link_withheld _ _ false); [reflexivity| |reflexivity]. cbn [view_proc v_exe]. now rewrite El, Eh. }
      rewrite Hw, guess_it_proc by assumption.
      destruct (spec_cmdline (p_cmd r)) as [|a0 rest]; [reflexivity|].
      destruct (exec_file (p_paths r) a0); reflexivity.
    + assert (Hw : pl_readlink (view_proc r) (v_exe (view_proc r)) = Exc AccessDenied).
      { cbn [view_proc v_exe]. now rewrite El, Eh. }
      rewrite Hw, guess_it_proc by assumption. reflexivity.
Qed.

Lemma spec_exe_val r : spec_cached r = true -> exists e, spec_exe r = Val e.
Proof.
  unfold spec_cached, spec_exe. destruct (p_exe r); [eauto|].
  destruct (p_how r); try discriminate; intros _;
    (destruct (spec_cmdline (p_cmd r)) as [|a0 rest]; [eauto|]; destruct (exec_file (p_paths r) a0); eauto).
Qed.

Lemma exe_cached : forall c e v', fe_exe c (Some e) v' = (Val e, Some e).
Proof. reflexivity. Qed.

(* whenever a first call answers and the link was not denied, the answer is what is cached *)
Lemma exe_answer_is_cached : forall c v e st,
  fe_exe c None v = (Val e, st) -> pl_exe v <> Exc AccessDenied -> st = Some e.
Proof.
  intros c v e st H Hd. unfold fe_exe in H.
  destruct (pl_exe v) as [x|ex|] eqn:E.
  - destruct x as [|b x'].
    + destruct (guess_it c v (Val [])) as [y|ey|].
      * inversion H; subst; reflexivity.
      * destruct ey; inversion H; subst; reflexivity.
      * inversion H.
    + inversion H; subst; reflexivity.
  - destruct ex; try (inversion H; fail). congruence.
  - inversion H.
Qed.

Lemma exe_fallback_and_cache : forall c r v',
  wf_proc r = true -> (nl_translate c = true -> cmd_no_cr (p_cmd r) = true) ->
  spec_cached r = true ->
  exists e, spec_exe r = Val e
            /\ fe_exe c None (view_proc r) = (Val e, Some e)
            /\ fe_exe c (Some e) v' = (Val e, Some e).
Proof.
  intros c r v' H1 H2 H3. destruct (spec_exe_val r H3) as [e He]. exists e.
  split; [exact He|]. split; [|apply exe_cached].
  rewrite exe_spec by assumption. unfold spec_state. now rewrite H3, He.
Qed.

Lemma exe_denied : forall c r,
  wf_proc r = true -> (nl_translate c = true -> cmd_no_cr (p_cmd r) = true) ->
  spec_cached r = false ->
  fe_exe c None (view_proc r) = (spec_exe r, None).
Proof. intros c r H1 H2 H3. rewrite exe_spec by assumption. unfold spec_state. now rewrite H3. Qed.

Lemma exe_answer_is_cached_full : forall c v e st,
  fe_exe c None v = (Val e, st) -> pl_exe v <> Exc AccessDenied ->
  st = Some e /\ forall v', fe_exe c st v' = (Val e, st).
Proof.
  intros c v e st H Hd. pose proof (exe_answer_is_cached c v e st H Hd) as ->.
  split; [reflexivity|intros v'; apply exe_cached].
Qed.

Lemma exe_fallback_and_cache_now : forall r v',
  wf_proc r = true -> spec_cached r = true ->
  exists e, spec_exe r = Val e
            /\ fe_exe now None (view_proc r) = (Val e, Some e)
            /\ fe_exe now (Some e) v' = (Val e, Some e).
Proof. intros r v' H1 H2. apply exe_fallback_and_cache; auto. intros H; discriminate H. Qed.

Lemma exe_denied_now : forall r,
  wf_proc r = true -> spec_cached r = false ->
  fe_exe now None (view_proc r) = (spec_exe r, None).
Proof. intros r H1 H2. apply exe_denied; auto. intros H; discriminate H. Qed.

(* the three tests are each needed: a searchable directory, a file without x bit and a
   relative path to an executable are all refused *)
Example exe_fallback_example :
  let ps := [(bs "/", PDir); (bs "/opt/bin", PDir); (bs "/opt/bin/data", PReg); (bs "/opt/bin/prog", PRegX); (bs "prog", PRegX)] in
  let r a0 how := {| p_comm := bs "prog"; p_cmd := KArgv [a0; bs "-x"]; p_exe := None; p_how := how; p_paths := ps |} in
  spec_exe (r (bs "/opt/bin/prog") WENOENT) = Val (bs "/opt/bin/prog")
  /\ spec_exe (r (bs "/opt/bin") WENOENT) = Val []
  /\ spec_exe (r (bs "/") WESRCH) = Val []
  /\ spec_exe (r (bs "/opt/bin/data") WENOENT) = Val []
  /\ spec_exe (r (bs "/opt/bin/nothing") WENOENT) = Val []
  /\ spec_exe (r (bs "prog") WENOENT) = Val []
  /\ spec_exe (r (bs "/opt/bin") WEACCES) = Exc AccessDenied
  /\ spec_exe (r (bs "/opt/bin/prog") WEACCES) = Val (bs "/opt/bin/prog")
  /\ wf_proc (r (bs "/opt/bin") WEACCES) = true /\ spec_cached (r (bs "/opt/bin") WEACCES) = false.
Proof. cbv zeta. repeat split. Qed.

(* ---------------------------------------------------------------- name() *)
Lemma name_long_ascii c comm :
  (name_chars c = true -> is_ascii comm = true) ->
  name_long c comm = (15 <=? length comm)%nat.
Proof.
  intros H. unfold name_long. destruct (name_chars c); [|reflexivity].
  now rewrite ulen_ascii by auto.
Qed.

Lemma name_starts_ascii c comm ext :
  (name_chars c = true -> is_ascii comm = true) ->
  name_starts c comm ext = prefixb comm ext.
Proof.
  intros H. unfold name_starts. destruct (name_chars c); [|reflexivity].
  now rewrite prefix_udecode_ascii by auto.
Qed.

Lemma name_spec : forall c r,
  wf_proc r = true -> (nl_translate c = true -> cmd_no_cr (p_cmd r) = true) ->
  (name_chars c = true -> is_ascii (p_comm r) = true) ->
  fe_name c (view_proc r) = Val (spec_name r).
Proof.
  intros c r Hwf Hcr Hasc. unfold wf_proc in Hwf.
  apply andb_true_iff in Hwf as [Hwf Hlen]. apply andb_true_iff in Hwf as [Hcmd _].
  apply Nat.leb_le in Hlen.
  unfold fe_name, pl_name, spec_name. cbn [view_proc v_stat v_comm obind].
  rewrite name_long_ascii by exact Hasc.
  rewrite pl_cmdline_proc, cmdline_live_spec by assumption.
  destruct (15 <=? length (p_comm r))%nat eqn:E15.
  - apply Nat.leb_le in E15.
    assert (E : (length (p_comm r) =? 15)%nat = true) by (apply Nat.eqb_eq; lia).
    rewrite E. destruct (spec_cmdline (p_cmd r)) as [|a0 rest]; [reflexivity|].
    rewrite name_starts_ascii by exact Hasc. cbn [andb].
    destruct (prefixb (p_comm r) (basename a0)); reflexivity.
  - apply Nat.leb_gt in E15.
    assert (E : (length (p_comm r) =? 15)%nat = false) by (apply Nat.eqb_neq; lia).
    rewrite E. destruct (spec_cmdline (p_cmd r)); reflexivity.
Qed.

Lemma name_spec_now : forall r,
  wf_proc r = true -> fe_name now (view_proc r) = Val (spec_name r).
Proof. intros r H1. apply name_spec; auto; intros H; discriminate H. Qed.

Lemma name_spec_before_fix : forall r,
  wf_proc r = true -> cmd_no_cr (p_cmd r) = true -> is_ascii (p_comm r) = true ->
  fe_name before_fix (view_proc r) = Val (spec_name r).
Proof. intros r H1 H2 H3. apply name_spec; auto. Qed.

(* a zombie has a name but no command line *)
Lemma name_zombie : forall c v,
  v_stat v = Some true -> v_cmdline v = FData [] -> fe_name c v = Val (v_comm v).
Proof.
  intros c v Hs Hc. unfold fe_name, pl_name, pl_cmdline, is_zombie. rewrite Hs, Hc.
  cbn [obind read_text]. destruct (name_long c (v_comm v)); [|reflexivity].
  destruct (nl_translate c); reflexivity.
Qed.

(* a zombie: name() is the kernel name (also at 15 bytes, where cmdline() is consulted and
   raises ZombieProcess), cmdline()/exe()/cwd() raise ZombieProcess *)
Lemma zombie_block : forall c comm esrch,
  run_ops c st0 (zombie_ops (view_zombie comm esrch)) = spec_zombie comm.
Proof.
  intros c comm esrch. unfold zombie_ops, spec_zombie. cbn [run_ops do_op fe_name_st].
  rewrite name_zombie by reflexivity. cbn [remember_name s_exe s_name st0].
  assert (Hc : pl_cmdline c (view_zombie comm esrch) = Exc ZombieProcess).
  { unfold pl_cmdline. cbn. destruct (nl_translate c); reflexivity. }
  rewrite Hc.
  assert (He : pl_exe (view_zombie comm esrch) = Exc ZombieProcess) by (unfold pl_exe; destruct esrch; reflexivity).
  assert (Hw : pl_cwd (view_zombie comm esrch) = Exc ZombieProcess) by (unfold pl_cwd; destruct esrch; reflexivity).
  unfold fe_exe. rewrite He, Hw. reflexivity.
Qed.

Lemma gone_block : forall c denied esrch,
  run_ops c st0 (gone_ops denied esrch) = spec_gone denied.
Proof. intros c [|] [|]; reflexivity. Qed.

(* one block of calls over an unchanged kernel state *)
Lemma history : forall c r,
  wf_proc r = true -> (nl_translate c = true -> cmd_no_cr (p_cmd r) = true) ->
  (name_chars c = true -> is_ascii (p_comm r) = true) ->
  run_ops c st0 (hist_ops (view_proc r)) = spec_hist r.
Proof.
  intros c r Hwf Hcr Hasc. unfold hist_ops, spec_hist. cbn [run_ops do_op fe_name_st s_exe s_name st0].
  rewrite name_spec by assumption. rewrite exe_spec by assumption.
  pose proof Hwf as Hwf'. unfold wf_proc in Hwf'.
  apply andb_true_iff in Hwf' as [Hwf' _]. apply andb_true_iff in Hwf' as [Hcmd _].
  rewrite pl_cmdline_proc, cmdline_live_spec by assumption. reflexivity.
Qed.

Lemma history_now : forall r,
  wf_proc r = true -> run_ops now st0 (hist_ops (view_proc r)) = spec_hist r.
Proof. intros r H. apply history; auto; intros H0; discriminate H0. Qed.

(* ---------------------------------------------------------------- name(): history independence *)
(* a call of the name family answers from the kernel view of that moment, whatever the
   object remembers *)
Lemma do_op_name_family c st v o :
  name_family o = true -> fst (do_op c st v o) = fst (do_op c st0 v o).
Proof. destruct o; try discriminate; intros _; reflexivity. Qed.

Lemma name_history_independent : forall c steps st,
  forallb (fun s => name_family (snd s)) steps = true ->
  run_ops c st steps = map (fun s => fst (do_op c st0 (fst s) (snd s))) steps.
Proof.
  intros c steps. induction steps as [|[v o] r IH]; intros st H; [reflexivity|].
  cbn [forallb snd] in H. apply andb_true_iff in H as [Ho Hr].
  cbn [run_ops map fst snd]. destruct (do_op c st v o) as [x st'] eqn:E.
  rewrite (IH st' Hr). f_equal.
  rewrite <- (do_op_name_family c st v o Ho), E. reflexivity.
Qed.

(* in particular two histories that end in the same OS state give the same last answer *)
Lemma name_last_answer : forall c pre1 pre2 st1 st2 v o,
  name_family o = true ->
  forallb (fun s => name_family (snd s)) pre1 = true ->
  forallb (fun s => name_family (snd s)) pre2 = true ->
  last (run_ops c st1 (pre1 ++ [(v, o)])) RUnit = last (run_ops c st2 (pre2 ++ [(v, o)])) RUnit.
Proof.
  intros c pre1 pre2 st1 st2 v o Ho H1 H2.
  rewrite !name_history_independent by (rewrite forallb_app; cbn [forallb snd]; rewrite ?H1, ?H2, Ho; reflexivity).
  rewrite !map_app. cbn [map]. now rewrite !last_last.
Qed.

Lemma name_state_answer c s :
  wf_nstate s = true -> (nl_translate c = true -> cmd_no_cr (n_cmd s) = true) ->
  (name_chars c = true -> is_ascii (n_comm s) = true) ->
  fe_name c (view_nstate s) = Val (spec_name_now s).
Proof.
  intros Hwf Hcr Hasc. unfold wf_nstate in Hwf. apply andb_true_iff in Hwf as [Hlen Hz].
  unfold view_nstate, spec_name_now. destruct (n_zombie s).
  - now rewrite name_zombie.
  - cbn [orb] in Hz. apply name_spec; [|exact Hcr|exact Hasc].
    unfold wf_proc, nproc. cbn [p_cmd p_exe p_comm]. now rewrite Hz, Hlen.
Qed.

(* every history of OS states (argv[0] rewritten, title overwritten, turned zombie, emptied,
   back again ...) with a name()/repr()/as_dict() call in each: each answer is the one the
   state of that moment demands *)
Lemma name_steps_spec : forall h,
  forallb (fun so => wf_nstate (fst so) && name_family (snd so)) h = true ->
  map (fun s => fst (do_op now st0 (fst s) (snd s))) (map (fun so => (view_nstate (fst so), snd so)) h)
  = map spec_name_step h.
Proof.
  induction h as [|[s o] r IH]; intros H; [reflexivity|].
  cbn [forallb fst snd] in H. apply andb_true_iff in H as [Hs Hr]. apply andb_true_iff in Hs as [Hwf Ho].
  cbn [map fst snd]. rewrite (IH Hr). f_equal.
  assert (Hn : fe_name now (view_nstate s) = Val (spec_name_now s))
    by (apply name_state_answer; [exact Hwf| |]; intros H0; discriminate H0).
  destruct o; try discriminate; unfold spec_name_step; cbn [do_op fe_name_st fst snd as_dict_value];
    rewrite ?Hn; reflexivity.
Qed.

Lemma name_history_spec : forall h st,
  forallb (fun so => wf_nstate (fst so) && name_family (snd so)) h = true ->
  run_ops now st (map (fun so => (view_nstate (fst so), snd so)) h) = map spec_name_step h.
Proof.
  intros h st H. rewrite name_history_independent; [now apply name_steps_spec|].
  clear st. induction h as [|[s o] r IH]; [reflexivity|].
  cbn [forallb fst snd map] in *. apply andb_true_iff in H as [Hs Hr]. apply andb_true_iff in Hs as [_ Ho].
  now rewrite Ho, IH.
Qed.

Example name_history_example :
  let comm := bs "gnome-keyring-d" in
  let h := [ ({| n_comm := comm; n_cmd := KArgv [bs "/usr/bin/gnome-keyring-daemon"]; n_zombie := false |}, OpName);
             ({| n_comm := comm; n_cmd := KArgv [bs "/usr/bin/gnome-keyring-d-other"; bs "x"]; n_zombie := false |}, OpRepr);
             ({| n_comm := comm; n_cmd := KTitle [bs "title:"; bs "idle"] TNone; n_zombie := false |}, OpName);
             ({| n_comm := comm; n_cmd := KArgv []; n_zombie := true |}, OpAsDictName);
             ({| n_comm := comm; n_cmd := KArgv []; n_zombie := false |}, OpName) ] in
  forallb (fun so => wf_nstate (fst so) && name_family (snd so)) h = true
  /\ map spec_name_step h = [RBytes (Val (bs "gnome-keyring-daemon")); RUnit; RBytes (Val comm); ROpt (Val (Some comm)); RBytes (Val comm)].
Proof. cbv zeta. split; reflexivity. Qed.

(* ---------------------------------------------------------------- a whole live process *)
Lemma pl_environ_ext c v v' :
  v_environ v = v_environ v' -> v_stat v = v_stat v' -> pl_environ c v = pl_environ c v'.
Proof. intros He Hs. unfold pl_environ, wrap, is_zombie. rewrite He, Hs. reflexivity. Qed.

Lemma fe_name_ext c v v' :
  v_stat v = v_stat v' -> v_stat_denied v = v_stat_denied v' -> v_comm v = v_comm v' -> v_cmdline v = v_cmdline v' ->
  fe_name c v = fe_name c v'.
Proof.
  intros Hs Hd Hc Hl. unfold fe_name, pl_name. rewrite (pl_cmdline_ext c v v' Hl Hs).
  unfold wrap, is_zombie. rewrite Hs, Hd, Hc. reflexivity.
Qed.

(* all five accessors on one live process record (what the live cases run against the kernel) *)
Lemma live_block : forall r,
  wf_live r = true ->
  exists d, run_ops now st0 (live_ops (view_live r)) =
            [RList (Val (spec_cmdline (lv_cmd r))); RDict (Val d);
             RBytes (Val (l_path (lv_exe r))); RBytes (Val (l_path (lv_cwd r))); RBytes (Val (spec_name (live_proc r)))]
            /\ NoDup (map fst d) /\ forall k, aget k d = aget k (spec_env (e_items (lv_env r))).
Proof.
  intros r H. unfold wf_live in H.
  apply andb_true_iff in H as [H Hcwd]. apply andb_true_iff in H as [H Hexe].
  apply andb_true_iff in H as [H Henv]. apply andb_true_iff in H as [Hlen Hcmd].
  assert (E1 : pl_cmdline now (view_live r) = Val (spec_cmdline (lv_cmd r))).
  { rewrite (pl_cmdline_ext now (view_live r) (view_cmd (lv_cmd r) false)) by reflexivity.
    apply cmdline_live_spec; [exact Hcmd|intros H0; discriminate H0]. }
  assert (E2 : exists d, pl_environ now (view_live r) = Val d /\ NoDup (map fst d) /\
                         forall k, aget k d = env_last k (e_items (lv_env r))).
  { rewrite (pl_environ_ext now (view_live r) (view_env (lv_env r))) by reflexivity.
    now apply environ_lookup_now. }
  assert (E3 : fe_exe now None (view_live r) = (Val (l_path (lv_exe r)), Some (l_path (lv_exe r)))).
  { unfold fe_exe, pl_exe. cbn [view_live v_exe]. rewrite link_cleanup by exact Hexe.
    unfold wf_link in Hexe. apply andb_true_iff in Hexe as [Hl _]. apply andb_true_iff in Hl as [_ Hne].
    destruct (l_path (lv_exe r)); [discriminate|reflexivity]. }
  assert (E4 : pl_cwd (view_live r) = Val (l_path (lv_cwd r))).
  { unfold pl_cwd. cbn [view_live v_cwd]. now apply link_cleanup. }
  assert (E5 : fe_name now (view_live r) = Val (spec_name (live_proc r))).
  { rewrite (fe_name_ext now (view_live r) (view_proc (live_proc r))) by reflexivity.
    apply name_spec_now. unfold wf_proc, live_proc. cbn [p_cmd p_exe p_comm]. now rewrite Hcmd, Hexe, Hlen. }
  destruct E2 as [d [Hd [Hn Hl]]]. exists d. split; [|split; [exact Hn|]].
  - unfold live_ops. cbn [run_ops do_op fe_name_st s_exe s_name st0]. rewrite E1, Hd, E3, E4, E5. reflexivity.
  - intros k. rewrite Hl. symmetry. apply spec_env_lookup.
Qed.

Lemma name_multibyte_refuted :
  exists r, wf_proc r = true /\ cmd_no_cr (p_cmd r) = true /\ length (p_comm r) = 15%nat /\
            fe_name before_fix (view_proc r) = Val (p_comm r) /\ spec_name r <> p_comm r.
Proof.
  exists {| p_comm := bs "abcdefghijklm" ++ [195; 169];
            p_cmd := KArgv [bs "/usr/bin/abcdefghijklm" ++ [195; 169] ++ bs "-daemon"; bs "--fg"];
            p_exe := None; p_how := WENOENT; p_paths := [] |}.
  split; [reflexivity|]. split; [reflexivity|]. split; [reflexivity|].
  split; [vm_compute; reflexivity|]. vm_compute. congruence.
Qed.

(* a name cut in the middle of a character: the decoded texts differ at the cut even
   though the bytes are a prefix *)
Lemma name_cut_char_refuted :
  exists r, wf_proc r = true /\ cmd_no_cr (p_cmd r) = true /\ ulen (p_comm r) = 15%nat /\
            prefixb (p_comm r) (basename (hd [] (spec_cmdline (p_cmd r)))) = true /\
            fe_name before_fix (view_proc r) = Val (p_comm r) /\ spec_name r <> p_comm r.
Proof.
  exists {| p_comm := bs "abcdefghijklmn" ++ [195];
            p_cmd := KArgv [bs "abcdefghijklmn" ++ [195; 169] ++ bs "z"];
            p_exe := None; p_how := WENOENT; p_paths := [] |}.
  split; [reflexivity|]. split; [reflexivity|]. split; [reflexivity|]. split; [reflexivity|].
  split; [vm_compute; reflexivity|]. vm_compute. congruence.
Qed.

Example link_example :
  wf_link {| l_path := bs "/tmp/a b (deleted)"; l_unlinked := true; l_garbage := Some (bs " (deleted)x"); l_lit_exists := false; l_errno := ENOTDIR |} = true
  /\ wf_link {| l_path := bs "/tmp/x (deleted)"; l_unlinked := false; l_garbage := None; l_lit_exists := true; l_errno := ENOENT |} = true.
Proof. split; reflexivity. Qed.

Example proc_example :
  let r := {| p_comm := bs "gnome-keyring-d";
              p_cmd := KArgv [bs "/usr/bin/gnome-keyring-daemon"; bs "--daemonize"];
              p_exe := None; p_how := WESRCH; p_paths := [(bs "/usr/bin/gnome-keyring-daemon", PRegX)] |} in
  wf_proc r = true /\ cmd_no_cr (p_cmd r) = true /\ is_ascii (p_comm r) = true
  /\ spec_name r = bs "gnome-keyring-daemon" /\ spec_exe r = Val (bs "/usr/bin/gnome-keyring-daemon").
Proof. cbv zeta. repeat split. Qed.
