(* C12 -- what the kernel exposes about a process' command line, environment,
   exe/cwd links and name, and what the property says the accessors must answer.
   Written from proc(5) (/proc/pid/cmdline, environ, exe, cwd, stat comm) and the
   property text, not from psutil's code. *)
From PV Require Export C12.Model.

Definition nul_free (a : bytes) : bool := negb (contains 0 a).
Definition no_cr (a : bytes) : bool := negb (contains 13 a).

(* ------------------------------------------------------------ /proc/<pid>/cmdline *)
(* Either the argument vector execve() installed -- every argument followed by
   a NUL -- or a title the process wrote over it: words separated by single
   spaces (consecutive spaces = empty words), with no terminator, a space or
   one NUL at the end. *)
Inductive term := TNone | TSpace | TNul.
Inductive kcmd :=
| KArgv (argv : list bytes)
| KTitle (words : list bytes) (t : term).

Definition k_term (t : term) : bytes :=
  match t with TNone => [] | TSpace => [32] | TNul => [0] end.
Definition k_cmdline (k : kcmd) : bytes :=
  match k with
  | KArgv argv => concat (map (fun a => a ++ [0]) argv)
  | KTitle ws t => join [32] ws ++ k_term t
  end.

Definition word_ok (w : bytes) : bool := nul_free w && negb (contains 32 w).
Definition wf_cmd (k : kcmd) : bool :=
  match k with
  | KArgv argv => forallb nul_free argv
  | KTitle ws t =>
    match ws with [] => false | _ => forallb word_ok ws end
    && match t with
       | TNone => match last ws [] with [] => false | _ => true end  (* else it is a TSpace title *)
       | _ => true
       end
  end.

(* one NUL-terminated argument and nothing else: no NUL *separator* is present,
   so the bytes are read as a space-separated title (psutil's documented
   heuristic, gh #1179) *)
Definition single_space (argv : list bytes) : bool :=
  match argv with [a] => contains 32 a | _ => false end.

Definition spec_cmdline (k : kcmd) : list bytes :=
  match k with
  | KArgv [a] => split_on 32 a
  | KArgv argv => argv
  | KTitle ws _ => ws
  end.

Definition cmd_no_cr (k : kcmd) : bool :=
  match k with KArgv l | KTitle l _ => forallb no_cr l end.

(* a process as far as cmdline() is concerned *)
Definition view_cmd (k : kcmd) (zombie : bool) : pview :=
  {| v_stat := Some zombie; v_stat_denied := false; v_comm := bs "x";
     v_cmdline := FData (k_cmdline k); v_environ := FData [];
     v_exe := LENOENT; v_cwd := LENOENT; v_paths := [] |}.

(* ------------------------------------------------------------ /proc/<pid>/environ *)
Inductive eitem :=
| EKV (name value : bytes)     (* NAME=value, NAME non-empty *)
| EJunk (s : bytes).           (* an entry without '=' , or with an empty NAME ("=x") *)
Inductive etail :=
| ENone                        (* the block ends after the last entry's NUL *)
| EEnd (garbage : bytes)       (* an empty entry (a NUL), then anything at all *)
| EUnterminated (g : bytes).   (* bytes without a terminating NUL *)
Record kenv := { e_items : list eitem; e_tail : etail }.

Definition k_item (i : eitem) : bytes :=
  match i with EKV n v => n ++ 61 :: v | EJunk s => s end.
Definition k_tail (t : etail) : bytes :=
  match t with ENone => [] | EEnd g => 0 :: g | EUnterminated g => g end.
Definition k_items (items : list eitem) : bytes :=
  concat (map (fun i => k_item i ++ [0]) items).
Definition k_environ (r : kenv) : bytes := k_items (e_items r) ++ k_tail (e_tail r).

Definition item_ok (i : eitem) : bool :=
  match i with
  | EKV n v => match n with [] => false | _ => true end
               && nul_free n && negb (contains 61 n) && nul_free v
  | EJunk s => match s with [] => false | _ => true end && nul_free s
               && (negb (contains 61 s) || prefixb [61] s)
  end.
Definition tail_ok (t : etail) : bool :=
  match t with ENone | EEnd _ => true | EUnterminated g => nul_free g end.
Definition wf_env (r : kenv) : bool := forallb item_ok (e_items r) && tail_ok (e_tail r).

(* value of the last NAME=value entry with that NAME *)
Fixpoint env_last (k : bytes) (items : list eitem) : option bytes :=
  match items with
  | [] => None
  | i :: r =>
    match env_last k r with
    | Some v => Some v
    | None => match i with
              | EKV n v => if beqb k n then Some v else None
              | EJunk _ => None
              end
    end
  end.

(* the dictionary as a list: each NAME once (at its last entry) *)
Definition has_name (n : bytes) (items : list eitem) : bool :=
  existsb (fun i => match i with EKV n' _ => beqb n n' | EJunk _ => false end) items.
Fixpoint spec_env (items : list eitem) : list (bytes * bytes) :=
  match items with
  | [] => []
  | EKV n v :: r => if has_name n r then spec_env r else (n, v) :: spec_env r
  | EJunk _ :: r => spec_env r
  end.

Definition view_env (r : kenv) : pview :=
  {| v_stat := Some false; v_stat_denied := false; v_comm := bs "x";
     v_cmdline := FData []; v_environ := FData (k_environ r);
     v_exe := LENOENT; v_cwd := LENOENT; v_paths := [] |}.

(* ------------------------------------------------------------ exe / cwd links *)
(* d_path of the link's dentry: the path, " (deleted)" appended when the dentry
   is unlinked; some kernels/filesystems leave a NUL and garbage after it
   (gh #717).  [l_lit_exists]: is there a file whose name is literally the
   string shown (up to the NUL)? *)
Record klink := {
  l_path : bytes;
  l_unlinked : bool;
  l_garbage : option bytes;
  l_lit_exists : bool;
  l_errno : probe_errno }.   (* when it does not: what stat() of that string fails with -- from whatever the
                                 file system looks like there now (gone, parent replaced by a file, symlink loop, ...) *)

Definition k_shown (r : klink) : bytes :=
  l_path r ++ (if l_unlinked r then deleted_sfx else []).
Definition k_link (r : klink) : bytes :=
  k_shown r ++ match l_garbage r with Some g => 0 :: g | None => [] end.

(* what the environment guarantees: the path has no NUL and is not empty; if the
   dentry is unlinked nothing else is named "<path> (deleted)"; if it is linked,
   the file is there under its own name *)
Definition wf_link (r : klink) : bool :=
  nul_free (l_path r) && match l_path r with [] => false | _ => true end
  && (if l_unlinked r then negb (l_lit_exists r)
      else if suffixb deleted_sfx (l_path r) then l_lit_exists r else true).

Definition to_link (r : klink) : link_res :=
  LTarget (k_link r) (if l_lit_exists r then SExists else SFails (l_errno r)).

(* ------------------------------------------------------------ exe() with fallback; name() *)
Inductive withhold := WENOENT | WESRCH | WEACCES.   (* errno of readlink(/proc/pid/exe) *)
Record kproc := {
  p_comm : bytes;                 (* task->comm: at most 15 bytes *)
  p_cmd : kcmd;
  p_exe : option klink;           (* None: the kernel does not give the link *)
  p_how : withhold;               (* ... and with which errno (EACCES = denied) *)
  p_paths : list (bytes * pkind) }.   (* what exists: executable files, other files, directories *)

Definition view_proc (r : kproc) : pview :=
  {| v_stat := Some false; v_stat_denied := false; v_comm := p_comm r;
     v_cmdline := FData (k_cmdline (p_cmd r)); v_environ := FData [];
     v_exe := match p_exe r with
              | Some l => to_link l
              | None => match p_how r with WENOENT => LENOENT | WESRCH => LESRCH | WEACCES => LEACCES end
              end;
     v_cwd := LENOENT; v_paths := p_paths r |}.

Definition wf_proc (r : kproc) : bool :=
  wf_cmd (p_cmd r) && match p_exe r with Some l => wf_link l | None => true end
  && (length (p_comm r) <=? 15)%nat.

(* "an absolute path to an executable file": absolute, a regular file, executable.
   A directory (searchable, so X_OK-accessible) or a file without x bit is not one. *)
Definition exec_file (ps : list (bytes * pkind)) (p : bytes) : bool :=
  prefixb [47] p && match path_kind ps p with Some PRegX => true | _ => false end.

Definition spec_exe (r : kproc) : outcome bytes :=
  match p_exe r with
  | Some l => Val (l_path l)
  | None =>
    let otherwise := match p_how r with WEACCES => Exc AccessDenied | _ => Val [] end in
    match spec_cmdline (p_cmd r) with
    | a0 :: _ => if exec_file (p_paths r) a0 then Val a0 else otherwise
    | [] => otherwise
    end
  end.
(* the answer is remembered, except on the denied path *)
Definition spec_cached (r : kproc) : bool :=
  match p_exe r, p_how r with None, WEACCES => false | _, _ => true end.

(* the kernel's name, unless it fills all 15 bytes and the basename of
   cmdline()[0] starts with it *)
Definition spec_name (r : kproc) : bytes :=
  match spec_cmdline (p_cmd r) with
  | a0 :: _ =>
    if (length (p_comm r) =? 15)%nat && prefixb (p_comm r) (basename a0)
    then basename a0 else p_comm r
  | [] => p_comm r
  end.

(* ------------------------------------------------------------ a zombie; a block of calls *)
(* a zombie keeps its stat record (state Z, comm) but its cmdline and environ read empty
   and its exe/cwd links are withheld *)
Definition view_zombie (comm : bytes) (esrch : bool) : pview :=
  {| v_stat := Some true; v_stat_denied := false; v_comm := comm;
     v_cmdline := FData []; v_environ := FData [];
     v_exe := if esrch then LESRCH else LENOENT; v_cwd := if esrch then LESRCH else LENOENT; v_paths := [] |}.
Definition zombie_ops (v : pview) : list (pview * op) := [(v, OpName); (v, OpCmdline); (v, OpExe); (v, OpCwd)].
Definition spec_zombie (comm : bytes) : list res :=
  [RBytes (Val comm); RList (Exc ZombieProcess); RBytes (Exc ZombieProcess); RBytes (Exc ZombieProcess)].

(* cmdline(), cmdline() again, name(), exe() on one object while the kernel state stands
   still (e.g. inside one oneshot() block, whatever the caller did with the list the first
   call returned): every answer is what the kernel exposes *)
Definition hist_ops (v : pview) : list (pview * op) :=
  [(v, OpCmdline); (v, OpCmdline); (v, OpName); (v, OpExe)].
Definition spec_hist (r : kproc) : list res :=
  [RList (Val (spec_cmdline (p_cmd r))); RList (Val (spec_cmdline (p_cmd r)));
   RBytes (Val (spec_name r)); RBytes (spec_exe r)].

(* a process being torn down: /proc/<pid>/stat cannot be reached any more (absent, or the
   probe is refused), every other entry is gone, the links are withheld *)
Definition view_gone (denied esrch : bool) : pview :=
  {| v_stat := None; v_stat_denied := denied; v_comm := bs "x";
     v_cmdline := FENOENT; v_environ := FENOENT;
     v_exe := if esrch then LESRCH else LENOENT; v_cwd := if esrch then LESRCH else LENOENT; v_paths := [] |}.
Definition gone_ops (denied esrch : bool) : list (pview * op) :=
  let v := view_gone denied esrch in if denied then [(v, OpCwd)] else [(v, OpCwd); (v, OpExe)].
Definition spec_gone (denied : bool) : list res :=
  if denied then [RBytes (Exc AccessDenied)] else [RBytes (Exc NoSuchProcess); RBytes (Exc NoSuchProcess)].

(* ------------------------------------------------------------ cmdline(): the whole rule, for every byte string
   Written from the documented rule (proc(5) + the comments of gh #1179): a file that ends
   with NUL holds NUL-terminated arguments -- unless no NUL separates anything, in which
   case it is a title whose words are separated by spaces; a file that does not end with NUL
   is a title: words separated by spaces, one trailing space being a terminator (NULs inside
   it stay inside the words). *)
Definition spec_split (data : bytes) : list bytes :=
  match rev data with
  | [] => []
  | last :: body_rev =>
    let body := rev body_rev in
    if last =? 0 then
      if contains 0 body then split_on 0 body else split_on 32 body
    else if last =? 32 then split_on 32 body
    else split_on 32 data
  end.

Definition view_cmd_bytes (data : bytes) (zombie : bool) : pview :=
  {| v_stat := Some zombie; v_stat_denied := false; v_comm := bs "x";
     v_cmdline := FData data; v_environ := FData [];
     v_exe := LENOENT; v_cwd := LENOENT; v_paths := [] |}.
Definition spec_cmd_bytes (data : bytes) (zombie : bool) : outcome (list bytes) :=
  match data with
  | [] => if zombie then Exc ZombieProcess else Val []
  | _ => Val (spec_split data)
  end.

Definition view_env_bytes (data : bytes) : pview :=
  {| v_stat := Some false; v_stat_denied := false; v_comm := bs "x";
     v_cmdline := FData []; v_environ := FData data;
     v_exe := LENOENT; v_cwd := LENOENT; v_paths := [] |}.

(* ------------------------------------------------------------ exe()/cwd() when the link is not given: the table *)
Definition link_table (stat : option bool) (probe_denied : bool) : outcome bytes :=
  match stat with
  | Some false => Val []                 (* live process: '' *)
  | Some true => Exc ZombieProcess       (* zombie *)
  | None => if probe_denied then Exc AccessDenied   (* cannot tell: the probe of /proc/<pid>/stat is refused *)
            else Exc NoSuchProcess       (* gone: the stat file is absent *)
  end.

(* ------------------------------------------------------------ environ(): every byte block read as entries
   The block is a sequence of NUL-terminated entries; the first empty entry ends it (what
   follows is garbage), bytes after the last NUL are an unterminated rest.  An entry is
   NAME=value when its first '=' is not its first byte. *)
Definition mk_item (e : bytes) : eitem :=
  match find_byte 61 e with
  | Some (S m) => EKV (firstn (S m) e) (skipn (S (S m)) e)
  | _ => EJunk e
  end.
Fixpoint env_items (cur : bytes) (l : bytes) : list eitem * etail :=
  match l with
  | [] => ([], match cur with [] => ENone | _ => EUnterminated cur end)
  | c :: r =>
    if c =? 0 then
      match cur with
      | [] => ([], EEnd r)
      | _ => let '(its, t) := env_items [] r in (mk_item cur :: its, t)
      end
    else env_items (cur ++ [c]) r
  end.
Definition env_read (data : bytes) : kenv :=
  let '(its, t) := env_items [] data in {| e_items := its; e_tail := t |}.

(* ------------------------------------------------------------ name(): histories on one object
   The OS state of a process at one moment, as far as name() is concerned: comm, and either
   a command line or -- for a zombie -- none.  Between two calls anything may change: argv[0]
   rewritten, the title overwritten, the process turned zombie, the command line emptied. *)
Record nstate := { n_comm : bytes; n_cmd : kcmd; n_zombie : bool }.
Definition nproc (s : nstate) : kproc :=
  {| p_comm := n_comm s; p_cmd := n_cmd s; p_exe := None; p_how := WENOENT; p_paths := [] |}.
Definition view_nstate (s : nstate) : pview :=
  if n_zombie s then view_zombie (n_comm s) false else view_proc (nproc s).
Definition wf_nstate (s : nstate) : bool :=
  (length (n_comm s) <=? 15)%nat && (n_zombie s || wf_cmd (n_cmd s)).
(* the name the CURRENT state demands *)
Definition spec_name_now (s : nstate) : bytes :=
  if n_zombie s then n_comm s else spec_name (nproc s).

Definition name_family (o : op) : bool :=
  match o with OpName | OpRepr | OpAsDictName => true | _ => false end.
Definition spec_name_step (so : nstate * op) : res :=
  match snd so with
  | OpName => RBytes (Val (spec_name_now (fst so)))
  | OpAsDictName => ROpt (Val (Some (spec_name_now (fst so))))
  | _ => RUnit
  end.

(* ------------------------------------------------------------ a whole live process (used against the running kernel) *)
Record klive := {
  lv_comm : bytes; lv_cmd : kcmd; lv_env : kenv; lv_exe : klink; lv_cwd : klink }.
Definition view_live (r : klive) : pview :=
  {| v_stat := Some false; v_stat_denied := false; v_comm := lv_comm r;
     v_cmdline := FData (k_cmdline (lv_cmd r)); v_environ := FData (k_environ (lv_env r));
     v_exe := to_link (lv_exe r); v_cwd := to_link (lv_cwd r); v_paths := [] |}.
Definition wf_live (r : klive) : bool :=
  (length (lv_comm r) <=? 15)%nat && wf_cmd (lv_cmd r) && wf_env (lv_env r) && wf_link (lv_exe r) && wf_link (lv_cwd r).
Definition live_ops (v : pview) : list (pview * op) :=
  [(v, OpCmdline); (v, OpEnviron); (v, OpExe); (v, OpCwd); (v, OpName)].
Definition live_proc (r : klive) : kproc :=
  {| p_comm := lv_comm r; p_cmd := lv_cmd r; p_exe := Some (lv_exe r); p_how := WENOENT; p_paths := [] |}.
Definition spec_live (r : klive) : list res :=
  [RList (Val (spec_cmdline (lv_cmd r))); RDict (Val (spec_env (e_items (lv_env r))));
   RBytes (Val (l_path (lv_exe r))); RBytes (Val (l_path (lv_cwd r))); RBytes (Val (spec_name (live_proc r)))].

(* ------------------------------------------------------------ large argument vectors and environments, compactly described
   (the harness sends these descriptors; they are expanded here, so that case terms stay small
   while /proc/<pid>/cmdline and environ grow far beyond any read buffer) *)
Record bgroup := { g_unit : bytes; g_n : nat; g_tail : bytes; g_times : nat }.
Definition big_arg (g : bgroup) : bytes := concat (repeat (g_unit g) (g_n g)) ++ g_tail g.
Definition expand_args (gs : list bgroup) : list bytes :=
  concat (map (fun g => repeat (big_arg g) (g_times g)) gs).
Definition group_ok (g : bgroup) : bool := nul_free (g_unit g) && nul_free (g_tail g).

Fixpoint dec_fuel (fuel : nat) (z : Z) : bytes :=
  match fuel with
  | O => []
  | S f => if z <? 10 then [48 + z] else dec_fuel f (z / 10) ++ [48 + z mod 10]
  end.
Definition dec_of_nat (n : nat) : bytes := dec_fuel 20 (Z.of_nat n).
(* variables  <prefix><index>=<value>  for index = start .. start+times-1 *)
Record egroup := { eg_prefix : bytes; eg_value : bgroup }.
Definition expand_egroup (start : nat) (g : egroup) : list eitem :=
  map (fun i => EKV (eg_prefix g ++ dec_of_nat i) (big_arg (eg_value g))) (seq start (g_times (eg_value g))).
Fixpoint expand_env (start : nat) (gs : list egroup) : list eitem :=
  match gs with
  | [] => []
  | g :: r => expand_egroup start g ++ expand_env (start + g_times (eg_value g)) r
  end.
