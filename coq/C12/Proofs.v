(* C12 -- proofs about cmdline(). *)
From PV Require Import C12.Spec.

Lemma forallb_ext_in {A} (f g : A -> bool) l :
  (forall x, f x = g x) -> forallb f l = forallb g l.
Proof. intros H. induction l as [|x l IH]; [reflexivity|]. cbn. now rewrite H, IH. Qed.

(* ---------------------------------------------------------------- printers *)
Lemma k_argv_join argv :
  argv <> [] -> k_cmdline (KArgv argv) = join [0] argv ++ [0].
Proof.
  cbn [k_cmdline]. induction argv as [|a argv IH]; intros H; [congruence|].
  destruct argv as [|b r].
  - cbn. now rewrite app_nil_r.
  - cbn [map concat]. cbn [map concat] in IH. rewrite IH by congruence.
    change (join [0] (a :: b :: r)) with (a ++ [0] ++ join [0] (b :: r)).
    now rewrite <- !app_assoc.
Qed.

Lemma join_last sep ws :
  ws <> [] -> exists pre, join sep ws = pre ++ last ws [].
Proof.
  induction ws as [|w ws IH]; intros H; [congruence|].
  destruct ws as [|u us].
  - exists []. reflexivity.
  - destruct IH as [pre Hpre]; [congruence|].
    exists (w ++ sep ++ pre).
    change (join sep (w :: u :: us)) with (w ++ sep ++ join sep (u :: us)).
    rewrite Hpre. cbn [last]. now rewrite <- !app_assoc.
Qed.

Lemma contains_k_argv b argv :
  b <> 0 -> forallb (fun a => negb (contains b a)) argv = true ->
  contains b (k_cmdline (KArgv argv)) = false.
Proof.
  intros Hb. cbn [k_cmdline]. induction argv as [|a argv IH]; intros H; [reflexivity|].
  cbn [forallb] in H. apply andb_true_iff in H as [Ha Hr]. apply negb_true_iff in Ha.
  cbn [map concat]. rewrite !contains_app, Ha, IH by exact Hr.
  cbn [contains existsb]. destruct (Z.eqb_spec b 0); [contradiction|reflexivity].
Qed.

Lemma cmd_no_cr_printed k : cmd_no_cr k = true -> contains 13 (k_cmdline k) = false.
Proof.
  destruct k as [argv|ws t]; cbn [cmd_no_cr]; intros H.
  - apply contains_k_argv; [lia|exact H].
  - cbn [k_cmdline]. rewrite contains_app, contains_join; [|reflexivity|exact H].
    destruct t; reflexivity.
Qed.

(* ---------------------------------------------------------------- the text layer and the empty-file branch *)
Lemma pl_cmdline_data c k z :
  k_cmdline k <> [] ->
  (nl_translate c = true -> cmd_no_cr k = true) ->
  pl_cmdline c (view_cmd k z) = Val (cmdline_split (k_cmdline k)).
Proof.
  intros Hne Hcr. unfold pl_cmdline. cbn [view_cmd v_cmdline read_text].
  assert (E : (if nl_translate c then univ_nl (k_cmdline k) else k_cmdline k) = k_cmdline k).
  { destruct (nl_translate c); [|reflexivity].
    apply univ_nl_id, cmd_no_cr_printed, Hcr. reflexivity. }
  rewrite E. destruct (k_cmdline k) eqn:Ek; [congruence|reflexivity].
Qed.

Lemma cmdline_empty_file : forall c zombie,
  pl_cmdline c (view_cmd (KArgv []) zombie) = if zombie then Exc ZombieProcess else Val [].
Proof. intros c zombie. unfold pl_cmdline. cbn. destruct (nl_translate c); cbn; destruct zombie; reflexivity. Qed.

(* ---------------------------------------------------------------- argument vectors *)
Lemma nul_free_forall argv :
  forallb nul_free argv = forallb (fun t => negb (contains 0 t)) argv.
Proof. apply forallb_ext_in. reflexivity. Qed.

Lemma cmdline_split_argv argv :
  argv <> [] -> forallb nul_free argv = true ->
  cmdline_split (k_cmdline (KArgv argv)) = spec_cmdline (KArgv argv).
Proof.
  intros Hne Hnf. rewrite k_argv_join by exact Hne.
  unfold cmdline_split. rewrite ends_with_snoc. cbn [Z.eqb].
  rewrite ends_with_snoc. cbn [Z.eqb]. rewrite removelast_snoc.
  rewrite nul_free_forall in Hnf.
  rewrite split_on_join by assumption.
  destruct argv as [|a [|b r]]; [congruence| |].
  - cbn [length Nat.eqb andb join spec_cmdline].
    destruct (contains 32 a) eqn:E; [reflexivity|].
    now rewrite split_on_nosep.
  - reflexivity.
Qed.

Lemma cmdline_argv : forall c argv zombie,
  argv <> [] -> forallb nul_free argv = true -> single_space argv = false ->
  (nl_translate c = true -> forallb no_cr argv = true) ->
  pl_cmdline c (view_cmd (KArgv argv) zombie) = Val argv.
Proof.
  intros c argv z Hne Hnf Hss Hcr.
  rewrite pl_cmdline_data.
  - rewrite cmdline_split_argv by assumption.
    destruct argv as [|a [|b r]]; try reflexivity.
    cbn [spec_cmdline]. cbn [single_space] in Hss. now rewrite split_on_nosep.
  - rewrite k_argv_join by exact Hne. intros E. apply app_eq_nil in E as [_ E]. discriminate.
  - exact Hcr.
Qed.

Lemma cmdline_single_arg : forall c a zombie,
  nul_free a = true -> (nl_translate c = true -> no_cr a = true) ->
  pl_cmdline c (view_cmd (KArgv [a]) zombie) = Val (split_on 32 a).
Proof.
  intros c a z Hnf Hcr.
  rewrite pl_cmdline_data.
  - rewrite cmdline_split_argv; [reflexivity|congruence|].
    cbn [forallb]. now rewrite Hnf.
  - rewrite k_argv_join by congruence. intros E. apply app_eq_nil in E as [_ E]. discriminate.
  - intros H. cbn [cmd_no_cr forallb]. now rewrite (Hcr H).
Qed.

(* ---------------------------------------------------------------- overwritten titles *)
Lemma word_ok_nul ws : forallb word_ok ws = true -> forallb (fun t => negb (contains 0 t)) ws = true.
Proof.
  induction ws as [|w ws IH]; [reflexivity|]. cbn [forallb]. intros H.
  apply andb_true_iff in H as [Hw Hr]. unfold word_ok, nul_free in Hw.
  apply andb_true_iff in Hw as [H0 _]. now rewrite H0, IH.
Qed.
Lemma word_ok_sp ws : forallb word_ok ws = true -> forallb (fun t => negb (contains 32 t)) ws = true.
Proof.
  induction ws as [|w ws IH]; [reflexivity|]. cbn [forallb]. intros H.
  apply andb_true_iff in H as [Hw Hr]. unfold word_ok in Hw.
  apply andb_true_iff in Hw as [_ H32]. now rewrite H32, IH.
Qed.

Lemma forallb_last {A} (f : A -> bool) l d : l <> [] -> forallb f l = true -> f (last l d) = true.
Proof.
  induction l as [|x l IH]; intros Hne H; [congruence|].
  cbn [forallb] in H. apply andb_true_iff in H as [Hx Hl].
  destruct l as [|y l']; [exact Hx|]. cbn [last]. apply IH; [congruence|exact Hl].
Qed.

Lemma cmdline_split_title ws t :
  wf_cmd (KTitle ws t) = true ->
  cmdline_split (k_cmdline (KTitle ws t)) = ws.
Proof.
  cbn [wf_cmd k_cmdline]. intros H. apply andb_true_iff in H as [Hws Ht].
  assert (Hne : ws <> []) by (destruct ws; [discriminate|congruence]).
  assert (Hok : forallb word_ok ws = true) by (destruct ws; [discriminate|exact Hws]).
  pose proof (word_ok_nul ws Hok) as Hnul. pose proof (word_ok_sp ws Hok) as Hsp.
  assert (Hj0 : contains 0 (join [32] ws) = false) by (apply contains_join; [reflexivity|exact Hnul]).
  destruct t; cbn [k_term].
  - (* no terminator: the last word is not empty *)
    rewrite app_nil_r.
    destruct (join_last [32] ws Hne) as [pre Hpre].
    destruct (last ws []) as [|x0 l0] eqn:El; [discriminate|].
    assert (Hl : (x0 :: l0) <> []) by congruence.
    destruct (exists_last Hl) as [u [x Hux]].
    pose proof (forallb_last word_ok ws [] Hne Hok) as Hw. rewrite El, Hux in Hw.
    unfold word_ok, nul_free in Hw. rewrite !contains_app in Hw.
    cbn [contains existsb] in Hw. rewrite !orb_false_r in Hw.
    apply andb_true_iff in Hw as [Hw0 Hw32].
    apply negb_true_iff in Hw0, Hw32. apply orb_false_iff in Hw0 as [_ Hx0], Hw32 as [_ Hx32].
    unfold cmdline_split. rewrite Hpre, Hux, app_assoc.
    rewrite ends_with_snoc. rewrite (Z.eqb_sym x 0), Hx0.
    rewrite ends_with_snoc. rewrite (Z.eqb_sym x 32), Hx32.
    cbn [Z.eqb andb]. rewrite <- app_assoc, <- Hux, <- Hpre.
    apply split_on_join; assumption.
  - (* a space terminator *)
    unfold cmdline_split. rewrite ends_with_snoc. cbn [Z.eqb].
    rewrite ends_with_snoc. cbn [Z.eqb]. rewrite removelast_snoc. cbn [andb].
    apply split_on_join; assumption.
  - (* one NUL at the end, words separated by spaces *)
    unfold cmdline_split. rewrite ends_with_snoc. cbn [Z.eqb].
    rewrite ends_with_snoc. cbn [Z.eqb]. rewrite removelast_snoc.
    rewrite (split_on_nosep 0 _ Hj0). cbn [length Nat.eqb andb].
    destruct (contains 32 (join [32] ws)) eqn:E.
    + apply split_on_join; assumption.
    + destruct ws as [|w [|w2 r]]; [congruence|reflexivity|].
      change (join [32] (w :: w2 :: r)) with (w ++ [32] ++ join [32] (w2 :: r)) in E.
      rewrite !contains_app in E. cbn [contains existsb Z.eqb] in E.
      rewrite orb_true_r in E. discriminate.
Qed.

Lemma cmdline_title : forall c ws t zombie,
  wf_cmd (KTitle ws t) = true ->
  (nl_translate c = true -> forallb no_cr ws = true) ->
  pl_cmdline c (view_cmd (KTitle ws t) zombie) = Val ws.
Proof.
  intros c ws t z Hwf Hcr.
  rewrite pl_cmdline_data.
  - now rewrite cmdline_split_title.
  - pose proof Hwf as Hwf'. cbn [wf_cmd] in Hwf'. apply andb_true_iff in Hwf' as [Hws Ht].
    cbn [k_cmdline]. intros E. apply app_eq_nil in E as [Ej Et].
    destruct t; cbn [k_term] in Et; try discriminate.
    destruct ws as [|w ws']; [discriminate|].
    destruct (join_last [32] (w :: ws')) as [pre Hpre]; [congruence|].
    rewrite Ej in Hpre. symmetry in Hpre. apply app_eq_nil in Hpre as [_ Hl].
    rewrite Hl in Ht. discriminate.
  - exact Hcr.
Qed.

(* ---------------------------------------------------------------- all forms at once (live process) *)
Lemma cmdline_live_spec : forall c k,
  wf_cmd k = true -> (nl_translate c = true -> cmd_no_cr k = true) ->
  pl_cmdline c (view_cmd k false) = Val (spec_cmdline k).
Proof.
  intros c k Hwf Hcr. destruct k as [argv|ws t].
  - destruct argv as [|a r] eqn:Ea.
    + apply (cmdline_empty_file c false).
    + rewrite <- Ea in *. assert (Hne : argv <> []) by (subst; congruence).
      rewrite pl_cmdline_data; [|rewrite k_argv_join by exact Hne; intros E; apply app_eq_nil in E as [_ E]; discriminate|exact Hcr].
      now rewrite cmdline_split_argv.
  - now apply cmdline_title.
Qed.

(* cmdline() looks at the cmdline file and the state letter only *)
Lemma pl_cmdline_ext c v v' :
  v_cmdline v = v_cmdline v' -> v_stat v = v_stat v' -> pl_cmdline c v = pl_cmdline c v'.
Proof.
  intros Hc Hs. unfold pl_cmdline, wrap, is_zombie. rewrite Hc, Hs. reflexivity.
Qed.

(* ---------------------------------------------------------------- the code as it is now: no exclusion *)
Lemma cmdline_argv_now : forall argv zombie,
  argv <> [] -> forallb nul_free argv = true -> single_space argv = false ->
  pl_cmdline now (view_cmd (KArgv argv) zombie) = Val argv.
Proof. intros argv z H1 H2 H3. apply cmdline_argv; auto. intros H; discriminate H. Qed.

Lemma cmdline_single_arg_now : forall a zombie,
  nul_free a = true -> pl_cmdline now (view_cmd (KArgv [a]) zombie) = Val (split_on 32 a).
Proof. intros a z H1. apply cmdline_single_arg; auto. intros H; discriminate H. Qed.

Lemma cmdline_title_now : forall ws t zombie,
  wf_cmd (KTitle ws t) = true -> pl_cmdline now (view_cmd (KTitle ws t) zombie) = Val ws.
Proof. intros ws t z H1. apply cmdline_title; auto. intros H; discriminate H. Qed.

(* ---------------------------------------------------------------- the code before commit 46827e5: refuted *)
Lemma cmdline_cr_refuted :
  exists argv, argv <> [] /\ forallb nul_free argv = true /\ single_space argv = false /\
               pl_cmdline before_fix (view_cmd (KArgv argv) false) <> Val argv.
Proof.
  exists [bs "printf"; [97; 13; 10; 98]].
  split; [congruence|]. split; [reflexivity|]. split; [reflexivity|].
  vm_compute. congruence.
Qed.

Lemma cmdline_argv_before_fix : forall argv zombie,
  argv <> [] -> forallb nul_free argv = true -> single_space argv = false ->
  forallb no_cr argv = true ->
  pl_cmdline before_fix (view_cmd (KArgv argv) zombie) = Val argv.
Proof. intros argv z H1 H2 H3 H4. apply cmdline_argv; auto. Qed.

(* hypotheses of the theorems above are satisfiable by non-trivial inputs *)
Example cmdline_argv_example :
  let argv := [bs "/usr/bin/env"; bs ""; bs "a b"; [255; 254]; bs ""] in
  argv <> [] /\ forallb nul_free argv = true /\ single_space argv = false /\ forallb no_cr argv = true.
Proof. cbv zeta. split; [congruence|]. repeat split. Qed.
Example cmdline_title_example :
  wf_cmd (KTitle [bs "sshd:"; bs "user@pts/0"; bs ""; bs "x"] TNone) = true
  /\ forallb no_cr [bs "sshd:"; bs "user@pts/0"; bs ""; bs "x"] = true.
Proof. split; reflexivity. Qed.
