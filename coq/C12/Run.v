(* Entry points evaluated by the correspondence harness (props/C12.py). *)
From PV Require Export C12.Spec.
From Coq Require Uint63.

Definition jv_list (l : list bytes) : jv := JL (map JB l).
Definition jv_dict (d : list (bytes * bytes)) : jv := JL (map (fun kv => JL [JB (fst kv); JB (snd kv)]) d).
Definition jv_res (r : res) : jv :=
  match r with
  | RBytes o => jv_outcome JB o
  | RList o => jv_outcome jv_list o
  | RDict o => jv_outcome jv_dict o
  | ROpt o => jv_outcome (jopt JB) o
  | RUnit => JC "Unit" []
  end.

(* kernel-shaped command line: printed file, model answer, demanded answer *)
Definition spec_cmd_outcome (k : kcmd) (zombie : bool) : outcome (list bytes) :=
  match k_cmdline k with
  | [] => if zombie then Exc ZombieProcess else Val []
  | _ => Val (spec_cmdline k)
  end.
Definition run_cmd (c : cfg) (k : kcmd) (zombie : bool) : jv :=
  JL [ JB (k_cmdline k);
       jv_outcome jv_list (pl_cmdline c (view_cmd k zombie));
       (if wf_cmd k then jv_outcome jv_list (spec_cmd_outcome k zombie) else jnone) ].

Definition run_env (c : cfg) (r : kenv) : jv :=
  JL [ JB (k_environ r);
       jv_outcome jv_dict (pl_environ c (view_env r));
       (if wf_env r then JC "Val" [jv_dict (spec_env (e_items r))] else jnone) ].

Definition link_view (l : link_res) : pview :=
  {| v_stat := Some false; v_stat_denied := false; v_comm := bs "x"; v_cmdline := FData []; v_environ := FData [];
     v_exe := l; v_cwd := l; v_paths := [] |}.
Definition run_link (r : klink) : jv :=
  JL [ JB (k_link r);
       jv_outcome JB (pl_readlink (link_view (to_link r)) (to_link r));
       (if wf_link r then JC "Val" [JB (l_path r)] else jnone) ].

(* exe() twice on one object: first over [r], then over [r2] (the kernel changed) *)
Definition k_exe_link (r : kproc) : jv := jopt (fun l => JB (k_link l)) (p_exe r).
Definition run_exe (c : cfg) (r r2 : kproc) : jv :=
  JL [ JL [JB (k_cmdline (p_cmd r)); k_exe_link r; JB (k_cmdline (p_cmd r2)); k_exe_link r2];
       JL (map jv_res (run_ops c st0 [(view_proc r, OpExe); (view_proc r2, OpExe)]));
       (if wf_proc r && (spec_cached r || wf_proc r2)
        then JL [jv_outcome JB (spec_exe r); jv_outcome JB (if spec_cached r then spec_exe r else spec_exe r2)]
        else jnone);
       JL [jv_outcome jv_list (pl_cmdline c (view_proc r)); jv_outcome jv_list (pl_cmdline c (view_proc r2))] ].

Definition run_name (c : cfg) (r : kproc) : jv :=
  JL [ JB (k_cmdline (p_cmd r));
       jv_outcome JB (fe_name c (view_proc r));
       (if wf_proc r then JC "Val" [JB (spec_name r)] else jnone);
       jv_outcome jv_list (pl_cmdline c (view_proc r)) ].

Definition run_zombie (c : cfg) (comm : bytes) (esrch : bool) : jv :=
  JL [ JL (map jv_res (run_ops c st0 (zombie_ops (view_zombie comm esrch))));
       JL (map jv_res (spec_zombie comm)) ].

Definition run_gone (c : cfg) (denied esrch : bool) : jv :=
  JL [ JL (map jv_res (run_ops c st0 (gone_ops denied esrch))); JL (map jv_res (spec_gone denied)) ].

(* a history of OS states with a name()/repr()/as_dict() call in each *)
Definition run_nhist (c : cfg) (h : list (nstate * op)) : jv :=
  JL [ JL (map (fun so => JB (if n_zombie (fst so) then [] else k_cmdline (n_cmd (fst so)))) h);
       JL (map jv_res (run_ops c st0 (map (fun so => (view_nstate (fst so), snd so)) h)));
       (if forallb (fun so => wf_nstate (fst so) && name_family (snd so)) h
        then JL (map jv_res (map spec_name_step h)) else jnone) ].

Definition run_hist (c : cfg) (r : kproc) : jv :=
  JL [ JL [JB (k_cmdline (p_cmd r)); k_exe_link r];
       JL (map jv_res (run_ops c st0 (hist_ops (view_proc r))));
       (if wf_proc r then JL (map jv_res (spec_hist r)) else jnone);
       jv_outcome jv_list (pl_cmdline c (view_proc r)) ].

(* arbitrary (possibly malformed) views and call sequences: model answer only *)
Definition run_view (c : cfg) (steps : list (pview * op)) : jv :=
  JL [ JL (map jv_res (run_ops c st0 steps));
       JL (map (fun s => jv_outcome jv_list (pl_cmdline c (fst s))) steps) ].

(* every byte string as a cmdline file: model and the documented rule *)
Definition run_cmd_bytes (c : cfg) (data : bytes) (zombie : bool) : jv :=
  JL [ jv_outcome jv_list (pl_cmdline c (view_cmd_bytes data zombie));
       jv_outcome jv_list (spec_cmd_bytes data zombie) ].

Definition run_env_bytes (c : cfg) (data : bytes) : jv :=
  JL [ jv_outcome jv_dict (pl_environ c (view_env_bytes data));
       JC "Val" [jv_dict (spec_env (e_items (env_read data)))] ].

(* a live child: the bytes the running kernel is predicted to show, model answers, demanded answers *)
Definition run_live (c : cfg) (r : klive) : jv :=
  JL [ JL [JB (k_cmdline (lv_cmd r)); JB (k_environ (lv_env r)); JB (k_link (lv_exe r)); JB (k_link (lv_cwd r))];
       JL (map jv_res (run_ops c st0 (live_ops (view_live r))));
       (if wf_live r then JL (map jv_res (spec_live r)) else jnone) ].

(* ---- digests: large values are compared through (count, 61-bit polynomial hash, first, last) *)
(* machine integers (arithmetic modulo 2^63) only here, for speed of the harness digests; no theorem mentions them *)
Definition hstep (a : Uint63.int) (b : Z) : Uint63.int :=
  Uint63.add (Uint63.add (Uint63.mul a (Uint63.of_Z 1000003)) (Uint63.of_Z b)) (Uint63.of_Z 1).
Definition hbytes (a : Uint63.int) (l : bytes) : Uint63.int := fold_left hstep l a.
Definition hlist (ls : list bytes) : Uint63.int := fold_left (fun a l => hstep (hbytes a l) 256) ls (Uint63.of_Z 7).
Definition dig_bytes (l : bytes) : jv := JL [JZ (Z.of_nat (length l)); JZ (Uint63.to_Z (hbytes (Uint63.of_Z 7) l))].
Definition dig_list (ls : list bytes) : jv :=
  JL [JZ (Z.of_nat (length ls)); JZ (Uint63.to_Z (hlist ls)); JB (firstn 64 (hd [] ls)); JB (firstn 64 (last ls []))].
Definition dig_dict (d : list (bytes * bytes)) : jv :=
  dig_list (map (fun kv => fst kv ++ 61 :: snd kv) d).

(* a process with a large command line and environment (link withheld, cmdline()[0] executable) *)
Definition big_proc (comm : bytes) (gs : list bgroup) : kproc :=
  let argv := expand_args gs in
  {| p_comm := comm; p_cmd := KArgv argv; p_exe := None; p_how := WENOENT; p_paths := [(hd [] argv, PRegX)] |}.
Definition big_view (comm : bytes) (gs : list bgroup) (es : list egroup) : pview :=
  let r := big_proc comm gs in
  {| v_stat := Some false; v_stat_denied := false; v_comm := comm;
     v_cmdline := FData (k_cmdline (p_cmd r));
     v_environ := FData (k_environ {| e_items := expand_env 0 es; e_tail := ENone |});
     v_exe := LENOENT; v_cwd := LENOENT; v_paths := p_paths r |}.
Definition run_big (c : cfg) (comm : bytes) (gs : list bgroup) (es : list egroup) : jv :=
  let r := big_proc comm gs in
  let env := {| e_items := expand_env 0 es; e_tail := ENone |} in
  let v := big_view comm gs es in
  JL [ JL [dig_bytes (k_cmdline (p_cmd r)); dig_bytes (k_environ env)];
       JL [jv_outcome dig_list (pl_cmdline c v); jv_outcome dig_dict (pl_environ c v);
           jv_outcome JB (fe_name c v); jv_outcome JB (fst (fe_exe c None v))];
       (if wf_proc r && wf_env env
        then JL [JC "Val" [dig_list (spec_cmdline (p_cmd r))]; JC "Val" [dig_dict (spec_env (e_items env))];
                 JC "Val" [JB (spec_name r)]; jv_outcome JB (spec_exe r)]
        else jnone) ].

(* the encoder *)
Definition run_uenc (l : list Z) : jv := jopt JB (uencode l).

(* the decoder itself *)
Definition run_udec (l : bytes) : jv := JL (map JZ (udecode l)).
