(* Entry points evaluated by the correspondence harness (props/C12.py). *)
From PV Require Export C12.Spec.

Definition jv_list (l : list bytes) : jv := JL (map JB l).
Definition jv_dict (d : list (bytes * bytes)) : jv := JL (map (fun kv => JL [JB (fst kv); JB (snd kv)]) d).
Definition jv_res (r : res) : jv :=
  match r with
  | RBytes o => jv_outcome JB o
  | RList o => jv_outcome jv_list o
  | RDict o => jv_outcome jv_dict o
  | ROpt o => jv_outcome (jopt JB) o
  | RUnit => JC "Unit" []
  end.

(* kernel-shaped command line: printed file, model answer, demanded answer *)
Definition spec_cmd_outcome (k : kcmd) (zombie : bool) : outcome (list bytes) :=
  match k_cmdline k with
  | [] => if zombie then Exc ZombieProcess else Val []
  | _ => Val (spec_cmdline k)
  end.
Definition run_cmd (c : cfg) (k : kcmd) (zombie : bool) : jv :=
  JL [ JB (k_cmdline k);
       jv_outcome jv_list (pl_cmdline c (view_cmd k zombie));
       (if wf_cmd k then jv_outcome jv_list (spec_cmd_outcome k zombie) else jnone) ].

Definition run_env (c : cfg) (r : kenv) : jv :=
  JL [ JB (k_environ r);
       jv_outcome jv_dict (pl_environ c (view_env r));
       (if wf_env r then JC "Val" [jv_dict (spec_env (e_items r))] else jnone) ].

Definition link_view (l : link_res) : pview :=
  {| v_stat := Some false; v_stat_denied := false; v_comm := bs "x"; v_cmdline := FData []; v_environ := FData [];
     v_exe := l; v_cwd := l; v_paths := [] |}.
Definition run_link (r : klink) : jv :=
  JL [ JB (k_link r);
       jv_outcome JB (pl_readlink (link_view (to_link r)) (to_link r));
       (if wf_link r then JC "Val" [JB (l_path r)] else jnone) ].

(* exe() twice on one object: first over [r], then over [r2] (the kernel changed) *)
Definition k_exe_link (r : kproc) : jv := jopt (fun l => JB (k_link l)) (p_exe r).
Definition run_exe (c : cfg) (r r2 : kproc) : jv :=
  JL [ JL [JB (k_cmdline (p_cmd r)); k_exe_link r; JB (k_cmdline (p_cmd r2)); k_exe_link r2];
       JL (map jv_res (run_ops c st0 [(view_proc r, OpExe); (view_proc r2, OpExe)]));
       (if wf_proc r && (spec_cached r || wf_proc r2)
        then JL [jv_outcome JB (spec_exe r); jv_outcome JB (if spec_cached r then spec_exe r else spec_exe r2)]
        else jnone);
       JL [jv_outcome jv_list (pl_cmdline c (view_proc r)); jv_outcome jv_list (pl_cmdline c (view_proc r2))] ].

Definition run_name (c : cfg) (r : kproc) : jv :=
  JL [ JB (k_cmdline (p_cmd r));
       jv_outcome JB (fe_name c (view_proc r));
       (if wf_proc r then JC "Val" [JB (spec_name r)] else jnone);
       jv_outcome jv_list (pl_cmdline c (view_proc r)) ].

Definition run_zombie (c : cfg) (comm : bytes) (esrch : bool) : jv :=
  JL [ JL (map jv_res (run_ops c st0 (zombie_ops (view_zombie comm esrch))));
       JL (map jv_res (spec_zombie comm)) ].

Definition run_gone (c : cfg) (denied esrch : bool) : jv :=
  JL [ JL (map jv_res (run_ops c st0 (gone_ops denied esrch))); JL (map jv_res (spec_gone denied)) ].

(* a history of OS states with a name()/repr()/as_dict() call in each *)
Definition run_nhist (c : cfg) (h : list (nstate * op)) : jv :=
  JL [ JL (map (fun so => JB (if n_zombie (fst so) then [] else k_cmdline (n_cmd (fst so)))) h);
       JL (map jv_res (run_ops c st0 (map (fun so => (view_nstate (fst so), snd so)) h)));
       (if forallb (fun so => wf_nstate (fst so) && name_family (snd so)) h
        then JL (map jv_res (map spec_name_step h)) else jnone) ].

Definition run_hist (c : cfg) (r : kproc) : jv :=
  JL [ JL [JB (k_cmdline (p_cmd r)); k_exe_link r];
       JL (map jv_res (run_ops c st0 (hist_ops (view_proc r))));
       (if wf_proc r then JL (map jv_res (spec_hist r)) else jnone);
       jv_outcome jv_list (pl_cmdline c (view_proc r)) ].

(* arbitrary (possibly malformed) views and call sequences: model answer only *)
Definition run_view (c : cfg) (steps : list (pview * op)) : jv :=
  JL [ JL (map jv_res (run_ops c st0 steps));
       JL (map (fun s => jv_outcome jv_list (pl_cmdline c (fst s))) steps) ].

(* every byte string as a cmdline file: model and the documented rule *)
Definition run_cmd_bytes (c : cfg) (data : bytes) (zombie : bool) : jv :=
  JL [ jv_outcome jv_list (pl_cmdline c (view_cmd_bytes data zombie));
       jv_outcome jv_list (spec_cmd_bytes data zombie) ].

Definition run_env_bytes (c : cfg) (data : bytes) : jv :=
  JL [ jv_outcome jv_dict (pl_environ c (view_env_bytes data));
       JC "Val" [jv_dict (spec_env (e_items (env_read data)))] ].

(* a live child: the bytes the running kernel is predicted to show, model answers, demanded answers *)
Definition run_live (c : cfg) (r : klive) : jv :=
  JL [ JL [JB (k_cmdline (lv_cmd r)); JB (k_environ (lv_env r)); JB (k_link (lv_exe r)); JB (k_link (lv_cwd r))];
       JL (map jv_res (run_ops c st0 (live_ops (view_live r))));
       (if wf_live r then JL (map jv_res (spec_live r)) else jnone) ].

(* the encoder *)
Definition run_uenc (l : list Z) : jv := jopt JB (uencode l).

(* the decoder itself *)
Definition run_udec (l : bytes) : jv := JL (map JZ (udecode l)).
