(* C12 -- the codec round trip name() relies on since /repo 76627f6:
   os.fsencode(s) for s = bytes.decode("utf-8", "surrogateescape") gives the bytes back.
   [uencode] is str.encode("utf-8", "surrogateescape"): a lone surrogate U+DC80..U+DCFF
   becomes the byte it stands for, any other surrogate or a value outside the code space
   is an error (None), everything else is encoded as UTF-8. *)
From PV Require Import C12.Lib.
From Coq Require Import ZifyBool.

Ltac Zify.zify_post_hook ::= Z.div_mod_to_equations.

(* a strictly valid sequence re-encodes to exactly the bytes it was read from *)
Lemma useq_enc l cp n :
  wf_bytes l = true -> useq l = Some (cp, n) ->
  (1 <= n)%nat /\ uenc1 cp = Some (firstn n l).
Proof.
  intros Hwf H. destruct l as [|b0 r]; [discriminate|].
  cbn [wf_bytes forallb] in Hwf. apply andb_true_iff in Hwf as [Hb0 Hr].
  unfold wf_byte in Hb0. cbn [useq] in H.
  destruct (b0 <? 128) eqn:E0.
  { inversion H; subst. split; [lia|]. unfold uenc1, in_rng.
    assert ((0 <=? cp) && (cp <=? 127) = true) as -> by lia. reflexivity. }
  destruct (in_rng 194 223 b0) eqn:E1.
  { destruct r as [|b1 r1]; [discriminate|].
    destruct (is_cont b1) eqn:C1; [|discriminate]. inversion H; subst. split; [lia|].
    unfold is_cont, in_rng in *. unfold uenc1, in_rng. cbn [firstn].
    set (cp := (b0 - 192) * 64 + (b1 - 128)).
    assert ((0 <=? cp) && (cp <=? 127) = false) as -> by (subst cp; lia).
    assert ((56448 <=? cp) && (cp <=? 56575) = false) as -> by (subst cp; lia).
    assert ((55296 <=? cp) && (cp <=? 57343) = false) as -> by (subst cp; lia).
    assert ((128 <=? cp) && (cp <=? 2047) = true) as -> by (subst cp; lia).
    f_equal. f_equal; [subst cp; lia|]. f_equal. subst cp; lia. }
  destruct (in_rng 224 239 b0) eqn:E2.
  { destruct r as [|b1 [|b2 r2]]; try discriminate.
    match type of H with (if ?c then _ else _) = _ => destruct c eqn:C end; [|discriminate].
    inversion H; subst. split; [lia|]. apply andb_true_iff in C as [C1 C2].
    unfold is_cont, in_rng in *. unfold uenc1, in_rng. cbn [firstn].
    set (cp := (b0 - 224) * 4096 + (b1 - 128) * 64 + (b2 - 128)).
    assert (Hrange : (2048 <= cp <= 65535 /\ ~ (55296 <= cp <= 57343)) /\ 128 <= b1 <= 191).
    { subst cp. assert (Hc : b0 = 224 \/ 225 <= b0 <= 236 \/ b0 = 237 \/ 238 <= b0) by lia.
      destruct Hc as [Hc|[Hc|[Hc|Hc]]].
      - subst b0. cbn in C1. lia.
      - assert ((b0 =? 224) = false) as B1 by lia. assert ((b0 =? 237) = false) as B2 by lia.
        rewrite B1, B2 in C1. lia.
      - subst b0. cbn in C1. lia.
      - assert ((b0 =? 224) = false) as B1 by lia. assert ((b0 =? 237) = false) as B2 by lia.
        rewrite B1, B2 in C1. lia. }
    destruct Hrange as [Hrange Hb1]. clear C1.
    assert ((0 <=? cp) && (cp <=? 127) = false) as -> by lia.
    assert ((56448 <=? cp) && (cp <=? 56575) = false) as -> by lia.
    assert ((55296 <=? cp) && (cp <=? 57343) = false) as -> by lia.
    assert ((128 <=? cp) && (cp <=? 2047) = false) as -> by lia.
    assert ((2048 <=? cp) && (cp <=? 65535) = true) as -> by lia.
    assert (D1 : cp / 4096 = b0 - 224) by (subst cp; lia).
    assert (D2 : (cp / 64) mod 64 = b1 - 128) by (subst cp; lia).
    assert (D3 : cp mod 64 = b2 - 128) by (subst cp; lia).
    rewrite D1, D2, D3. f_equal. f_equal; [lia|]. f_equal; [lia|]. f_equal. lia. }
  destruct (in_rng 240 244 b0) eqn:E3; [|discriminate].
  destruct r as [|b1 [|b2 [|b3 r3]]]; try discriminate.
  match type of H with (if ?c then _ else _) = _ => destruct c eqn:C end; [|discriminate].
  inversion H; subst. split; [lia|]. apply andb_true_iff in C as [C12 C3]. apply andb_true_iff in C12 as [C1 C2].
  unfold is_cont, in_rng in *. unfold uenc1, in_rng. cbn [firstn].
  set (cp := (b0 - 240) * 262144 + (b1 - 128) * 4096 + (b2 - 128) * 64 + (b3 - 128)).
  assert (Hrange : 65536 <= cp <= 1114111 /\ 128 <= b1 <= 191).
  { subst cp. assert (Hc : b0 = 240 \/ 241 <= b0 <= 243 \/ b0 = 244) by lia.
    destruct Hc as [Hc|[Hc|Hc]].
    - subst b0. cbn in C1. lia.
    - assert ((b0 =? 240) = false) as B1 by lia. assert ((b0 =? 244) = false) as B2 by lia.
      rewrite B1, B2 in C1. lia.
    - subst b0. cbn in C1. lia. }
  destruct Hrange as [Hrange Hb1]. clear C1.
  assert ((0 <=? cp) && (cp <=? 127) = false) as -> by lia.
  assert ((56448 <=? cp) && (cp <=? 56575) = false) as -> by lia.
  assert ((55296 <=? cp) && (cp <=? 57343) = false) as -> by lia.
  assert ((128 <=? cp) && (cp <=? 2047) = false) as -> by lia.
  assert ((2048 <=? cp) && (cp <=? 65535) = false) as -> by lia.
  assert ((65536 <=? cp) && (cp <=? 1114111) = true) as -> by lia.
  assert (D0 : cp / 262144 = b0 - 240) by (subst cp; lia).
  assert (D1 : (cp / 4096) mod 64 = b1 - 128) by (subst cp; lia).
  assert (D2 : (cp / 64) mod 64 = b2 - 128) by (subst cp; lia).
  assert (D3 : cp mod 64 = b3 - 128) by (subst cp; lia).
  rewrite D0, D1, D2, D3. f_equal. f_equal; [lia|]. f_equal; [lia|]. f_equal; [lia|]. f_equal. lia.
Qed.

(* an undecodable byte is escaped to a lone surrogate and comes back as itself *)
Lemma escape_enc b r :
  wf_byte b = true -> useq (b :: r) = None -> uenc1 (56320 + b) = Some [b].
Proof.
  intros Hb H. unfold wf_byte in Hb. cbn [useq] in H.
  destruct (b <? 128) eqn:E0; [discriminate|].
  unfold uenc1, in_rng.
  assert ((0 <=? 56320 + b) && (56320 + b <=? 127) = false) as -> by lia.
  assert ((56448 <=? 56320 + b) && (56320 + b <=? 56575) = true) as -> by lia.
  f_equal. f_equal. lia.
Qed.

Lemma udec_aux_skip : forall l k, udec_aux k l = udec_aux 0 (skipn k l).
Proof.
  induction l as [|b r IH]; intros k.
  - destruct k; reflexivity.
  - destruct k as [|k']; [reflexivity|]. cbn [udec_aux skipn]. apply IH.
Qed.

Lemma wf_bytes_skipn l n : wf_bytes l = true -> wf_bytes (skipn n l) = true.
Proof.
  revert l. induction n as [|n IH]; intros l H; [exact H|].
  destruct l as [|b r]; [reflexivity|]. cbn [skipn]. apply IH.
  cbn [wf_bytes forallb] in H. now apply andb_true_iff in H as [_ H].
Qed.

Lemma roundtrip_len : forall m l,
  (length l <= m)%nat -> wf_bytes l = true -> uencode (udecode l) = Some l.
Proof.
  induction m as [|m IH]; intros l Hlen Hwf.
  - destruct l; [reflexivity|cbn in Hlen; lia].
  - destruct l as [|b r]; [reflexivity|].
    unfold udecode. cbn [udec_aux].
    destruct (useq (b :: r)) as [[cp n]|] eqn:E.
    + destruct (useq_enc (b :: r) cp n Hwf E) as [Hn Henc].
      cbn [uencode]. rewrite Henc.
      rewrite udec_aux_skip.
      assert (Hs : skipn (n - 1) r = skipn n (b :: r)).
      { destruct n as [|n']; [lia|]. replace (S n' - 1)%nat with n' by lia. reflexivity. }
      rewrite Hs. fold (udecode (skipn n (b :: r))).
      rewrite IH.
      * now rewrite firstn_skipn.
      * destruct n as [|n']; [lia|]. cbn [skipn]. rewrite skipn_length. cbn in Hlen. lia.
      * now apply wf_bytes_skipn.
    + cbn [uencode].
      pose proof Hwf as Hwf'. cbn [wf_bytes forallb] in Hwf'. apply andb_true_iff in Hwf' as [Hb Hr].
      rewrite (escape_enc b r Hb E). fold (udecode r).
      rewrite IH; [reflexivity|cbn in Hlen; lia|exact Hr].
Qed.

(* os.fsencode(decode(b)) = b, for every byte string *)
Theorem codec_roundtrip : forall b, wf_bytes b = true -> uencode (udecode b) = Some b.
Proof. intros b H. apply (roundtrip_len (length b)); [lia|exact H]. Qed.

(* hence the decoder is injective: two kernel names are equal as str iff equal as bytes *)
Corollary udecode_inj : forall a b,
  wf_bytes a = true -> wf_bytes b = true -> udecode a = udecode b -> a = b.
Proof.
  intros a b Ha Hb H. pose proof (codec_roundtrip a Ha) as Ea. pose proof (codec_roundtrip b Hb) as Eb.
  rewrite H in Ea. congruence.
Qed.

(* the tests name() makes on os.fsencode(name) / os.fsencode(extended_name) are tests on the kernel's bytes *)
Corollary fsencode_tests : forall comm ext,
  wf_bytes comm = true -> wf_bytes ext = true ->
  exists c e, uencode (udecode comm) = Some c /\ uencode (udecode ext) = Some e /\
              (15 <=? length c)%nat = (15 <=? length comm)%nat /\ prefixb c e = prefixb comm ext.
Proof.
  intros comm ext Hc He. exists comm, ext.
  rewrite (codec_roundtrip comm Hc), (codec_roundtrip ext He). repeat split.
Qed.
