(* Two small statement languages, one for psutil/_pslinux.py:Process.cmdline() and one for
   psutil/__init__.py:Process.name().  props/_c12_gen.py translates the CURRENT source of the two
   methods (Python ast of the tree under check) into programs of these languages
   (coq/Gen/C12_Tables.v), failing closed on every statement / expression shape it does not know;
   ProofsGen.v proves the interpreters below, run on the translated programs, equal to the
   hand-written model (Model.pl_cmdline / Model.fe_name at configuration [now]) for all inputs.
   No proofs here. *)
From PV Require Export C12.Model.

(* statement lists nested inside statements: run [f] over a list, stopping at the first
   statement that does not fall through *)
Inductive flow (S R : Type) := Next (s : S) | Ret (r : R) | Raise (e : exn) | Stuck.
Arguments Next {S R} s.
Arguments Ret {S R} r.
Arguments Raise {S R} e.
Arguments Stuck {S R}.

Definition run_list {X S R} (f : X -> S -> flow S R) : list X -> S -> flow S R :=
  fix go l st :=
    match l with
    | [] => Next st
    | x :: r => match f x st with Next st' => go r st' | other => other end
    end.

(* ================================================================ Process.cmdline() *)
(* the two str locals and the one list local of the method *)
Inductive svar := VData | VSep.

Inductive sexpr :=
| SVar (x : svar)
| SLit (b : bytes)                               (* an ASCII str literal *)
| SIfExp (c : bexpr) (a b : sexpr)               (* a if c else b *)
| SDropLast (s : sexpr)                          (* s[:-1] *)
with bexpr :=
| BTruthy (s : sexpr)                            (* s  (a str in a boolean context) *)
| BNot (b : bexpr)
| BAnd (a b : bexpr)                             (* a and b: b is not evaluated when a is false *)
| BEndswith (s t : sexpr)                        (* s.endswith(t) *)
| BEq (s t : sexpr)                              (* s == t *)
| BLenEq (n : nat)                               (* len(cmdline) == n *)
| BIn (t s : sexpr).                             (* t in s *)

Inductive lexpr :=
| LVar                                           (* cmdline *)
| LEmpty                                         (* [] *)
| LSplit (s sep : sexpr).                        (* s.split(sep) *)

Inductive cstmt :=
| CReadFile (raw_newline : bool)                 (* with open_text(".../cmdline"[, newline=""]) as f: data = f.read() *)
| CAssignS (x : svar) (e : sexpr)
| CAssignL (e : lexpr)                           (* cmdline = e *)
| CIf (c : bexpr) (body : list cstmt)            (* no else *)
| CRaiseIfZombie                                 (* self._raise_if_zombie() *)
| CReturn (e : lexpr).
Definition cprog := list cstmt.

Record cstate := { c_data : option bytes; c_sep : option bytes; c_list : option (list bytes) }.
Definition cget (st : cstate) (x : svar) : option bytes :=
  match x with VData => c_data st | VSep => c_sep st end.
Definition cset (st : cstate) (x : svar) (v : bytes) : cstate :=
  match x with
  | VData => {| c_data := Some v; c_sep := c_sep st; c_list := c_list st |}
  | VSep => {| c_data := c_data st; c_sep := Some v; c_list := c_list st |}
  end.
Definition cset_list (st : cstate) (l : list bytes) : cstate :=
  {| c_data := c_data st; c_sep := c_sep st; c_list := Some l |}.

(* None = a shape outside the interpreter (unbound local, separator that is not one character) *)
Fixpoint seval (st : cstate) (e : sexpr) : option bytes :=
  match e with
  | SVar x => cget st x
  | SLit b => Some b
  | SIfExp c a b => match beval st c with
                    | Some true => seval st a
                    | Some false => seval st b
                    | None => None
                    end
  | SDropLast s => option_map (@removelast Z) (seval st s)
  end
with beval (st : cstate) (b : bexpr) : option bool :=
  match b with
  | BTruthy s => option_map (fun v => match v with [] => false | _ => true end) (seval st s)
  | BNot a => option_map negb (beval st a)
  | BAnd a c => match beval st a with
                | Some true => beval st c
                | other => other
                end
  | BEndswith s t => match seval st s, seval st t with
                     | Some v, Some [ch] => Some (ends_with ch v)
                     | _, _ => None
                     end
  | BEq s t => match seval st s, seval st t with
               | Some v, Some w => Some (beqb v w)
               | _, _ => None
               end
  | BLenEq n => option_map (fun l => Nat.eqb (length l) n) (c_list st)
  | BIn t s => match seval st t, seval st s with
               | Some [ch], Some v => Some (contains ch v)
               | _, _ => None
               end
  end.

Definition leval (st : cstate) (e : lexpr) : option (list bytes) :=
  match e with
  | LVar => c_list st
  | LEmpty => Some []
  | LSplit s sep => match seval st s, seval st sep with
                    | Some v, Some [ch] => Some (split_on ch v)
                    | _, _ => None
                    end
  end.

(* [file] = the bytes of /proc/<pid>/cmdline; [zombie] = what _raise_if_zombie() finds *)
Fixpoint cexec (file : bytes) (zombie : bool) (s : cstmt) (st : cstate) : flow cstate (list bytes) :=
  match s with
  | CReadFile raw => Next (cset st VData (if raw then file else univ_nl file))
  | CAssignS x e => match seval st e with Some v => Next (cset st x v) | None => Stuck end
  | CAssignL e => match leval st e with Some l => Next (cset_list st l) | None => Stuck end
  | CIf c body => match beval st c with
                  | Some true => run_list (cexec file zombie) body st
                  | Some false => Next st
                  | None => Stuck
                  end
  | CRaiseIfZombie => if zombie then Raise ZombieProcess else Next st
  | CReturn e => match leval st e with Some l => Ret l | None => Stuck end
  end.

Definition run_cmdline (p : cprog) (file : bytes) (zombie : bool) : outcome (list bytes) :=
  match run_list (cexec file zombie) p {| c_data := None; c_sep := None; c_list := None |} with
  | Ret l => Val l
  | Raise e => Exc e
  | Next _ | Stuck => OutOfModel                 (* falling off the end would return None *)
  end.

(* ================================================================ psutil.Process.name() *)
Inductive ecls := KAccessDenied | KZombieProcess | KNoSuchProcess.
(* ZombieProcess is a subclass of NoSuchProcess *)
Definition ecatches (k : ecls) (e : exn) : bool :=
  match k, e with
  | KAccessDenied, AccessDenied => true
  | KZombieProcess, ZombieProcess => true
  | KNoSuchProcess, NoSuchProcess | KNoSuchProcess, ZombieProcess => true
  | _, _ => false
  end.

Inductive ncond :=
| NPosix                                         (* POSIX: true on the platform under check *)
| NWindows                                       (* WINDOWS: false *)
| NNameCached                                    (* self._name is not None *)
| NLenGe (fsenc : bool) (n : nat)                (* len(os.fsencode(name)) >= n  /  len(name) >= n *)
| NCmdline                                       (* cmdline  (a list in a boolean context) *)
| NStartswith (fsenc : bool)                     (* os.fsencode(extended_name).startswith(os.fsencode(name)) / extended_name.startswith(name) *)
| NAnd (a b : ncond).

Inductive nstmt :=
| NProcName                                      (* name = self._proc.name() *)
| NIf (c : ncond) (body : list nstmt)            (* no else *)
| NTryCmdline (caught : list ecls) (orelse : list nstmt)
    (* try: cmdline = self.cmdline()  except (<caught>): pass  else: <orelse> *)
| NExtBasename0                                  (* extended_name = os.path.basename(cmdline[0]) *)
| NNameExt                                       (* name = extended_name *)
| NStoreName                                     (* self._name = name *)
| NStoreProcName                                 (* self._proc._name = name (error messages only) *)
| NReturnName                                    (* return name *)
| NReturnCached.                                 (* return self._name *)
Definition nprog := list nstmt.

Record nstate := { n_name : option bytes; n_cmdline : option (list bytes); n_ext : option bytes;
                   n_stored : option bytes }.

Fixpoint neval (st : nstate) (c : ncond) : option bool :=
  match c with
  | NPosix => Some true
  | NWindows => Some false
  | NNameCached => Some (match n_stored st with Some _ => true | None => false end)
  | NLenGe fsenc n => option_map (fun nm => Nat.leb n (if fsenc then length nm else ulen nm)) (n_name st)
  | NCmdline => option_map (fun l => match l with [] => false | _ => true end) (n_cmdline st)
  | NStartswith fsenc =>
      match n_name st, n_ext st with
      | Some nm, Some ext => Some (if fsenc then prefixb nm ext else prefixb (udecode nm) (udecode ext))
      | _, _ => None
      end
  | NAnd a b => match neval st a with Some true => neval st b | other => other end
  end.

(* [pname] = what self._proc.name() does, [pcmd] = what self.cmdline() does (only looked at when
   the statement that calls it is reached) *)
Fixpoint nexec (pname : outcome bytes) (pcmd : outcome (list bytes)) (s : nstmt) (st : nstate)
  : flow nstate (bytes * option bytes) :=
  match s with
  | NProcName =>
      match pname with
      | Val nm => Next {| n_name := Some nm; n_cmdline := n_cmdline st; n_ext := n_ext st; n_stored := n_stored st |}
      | Exc e => Raise e
      | OutOfModel => Stuck
      end
  | NIf c body => match neval st c with
                  | Some true => run_list (nexec pname pcmd) body st
                  | Some false => Next st
                  | None => Stuck
                  end
  | NTryCmdline caught orelse =>
      match pcmd with
      | Val l => run_list (nexec pname pcmd) orelse
                   {| n_name := n_name st; n_cmdline := Some l; n_ext := n_ext st; n_stored := n_stored st |}
      | Exc e => if existsb (fun k => ecatches k e) caught then Next st else Raise e
      | OutOfModel => Stuck
      end
  | NExtBasename0 =>
      match n_cmdline st with
      | Some (a0 :: _) => Next {| n_name := n_name st; n_cmdline := n_cmdline st; n_ext := Some (basename a0); n_stored := n_stored st |}
      | Some [] => Raise IndexError
      | None => Stuck
      end
  | NNameExt => match n_ext st with
                | Some e => Next {| n_name := Some e; n_cmdline := n_cmdline st; n_ext := n_ext st; n_stored := n_stored st |}
                | None => Stuck
                end
  | NStoreName => match n_name st with
                  | Some nm => Next {| n_name := n_name st; n_cmdline := n_cmdline st; n_ext := n_ext st; n_stored := Some nm |}
                  | None => Stuck
                  end
  | NStoreProcName => match n_name st with Some _ => Next st | None => Stuck end
  | NReturnName => match n_name st with Some nm => Ret (nm, n_stored st) | None => Stuck end
  | NReturnCached => match n_stored st with Some nm => Ret (nm, n_stored st) | None => Stuck end
  end.

(* [stored] = self._name before the call; the answer and self._name after it *)
Definition run_name (p : nprog) (stored : option bytes) (pname : outcome bytes) (pcmd : outcome (list bytes))
  : outcome (bytes * option bytes) :=
  match run_list (nexec pname pcmd) p {| n_name := None; n_cmdline := None; n_ext := None; n_stored := stored |} with
  | Ret r => Val r
  | Raise e => Exc e
  | Next _ | Stuck => OutOfModel
  end.
