(* C12 -- total statements: cmdline() and environ() for every byte string, and the
   decision table of exe()/cwd() when the link is not given. *)
From PV Require Import C12.Spec C12.Proofs C12.ProofsEnv C12.ProofsLink.
From Coq Require Import ZifyBool.

(* ---------------------------------------------------------------- split_on facts *)
Lemma split_on_nonnil sep l : split_on sep l <> [].
Proof.
  induction l as [|c r IH]; cbn [split_on]; [congruence|].
  destruct (c =? sep); [congruence|]. destruct (split_on sep r); congruence.
Qed.

Lemma split_on_len2 sep l : contains sep l = true -> (2 <= length (split_on sep l))%nat.
Proof.
  induction l as [|c r IH]; [discriminate|].
  rewrite contains_cons. cbn [split_on]. intros H.
  destruct (c =? sep) eqn:E.
  - pose proof (split_on_nonnil sep r). destruct (split_on sep r); [congruence|cbn; lia].
  - rewrite Z.eqb_sym, E in H. cbn [orb] in H. specialize (IH H).
    destruct (split_on sep r) as [|t ts]; [cbn in IH; lia|exact IH].
Qed.

(* ---------------------------------------------------------------- cmdline(): every byte string *)
Lemma cmdline_split_total data : data <> [] -> cmdline_split data = spec_split data.
Proof.
  intros Hne. destruct (exists_last Hne) as [body [lastb ->]].
  unfold spec_split, cmdline_split. rewrite rev_app_distr. cbn [rev app]. rewrite rev_involutive.
  rewrite ends_with_snoc.
  destruct (lastb =? 0) eqn:E0.
  - rewrite ends_with_snoc, E0, removelast_snoc. cbn [Z.eqb andb].
    destruct (contains 0 body) eqn:Ec.
    + pose proof (split_on_len2 0 body Ec) as Hl.
      destruct (length (split_on 0 body) =? 1)%nat eqn:El; [apply Nat.eqb_eq in El; lia|reflexivity].
    + rewrite (split_on_nosep 0 body Ec). cbn [length Nat.eqb].
      destruct (contains 32 body) eqn:E32; [reflexivity|].
      now rewrite split_on_nosep.
  - rewrite ends_with_snoc. cbn [Z.eqb andb].
    destruct (lastb =? 32) eqn:E32.
    + now rewrite removelast_snoc.
    + reflexivity.
Qed.

Lemma cmdline_total : forall data zombie,
  pl_cmdline now (view_cmd_bytes data zombie) = spec_cmd_bytes data zombie.
Proof.
  intros data zombie. unfold pl_cmdline, spec_cmd_bytes. cbn [view_cmd_bytes v_cmdline read_text now nl_translate].
  destruct data as [|b r] eqn:Ed; [destruct zombie; reflexivity|].
  rewrite <- Ed. rewrite cmdline_split_total by (subst; congruence). subst. reflexivity.
Qed.

(* the rule on the kernel-shaped inputs agrees with the per-shape theorems *)
Lemma spec_split_argv : forall k, wf_cmd k = true -> k_cmdline k <> [] -> spec_split (k_cmdline k) = spec_cmdline k.
Proof.
  intros k Hwf Hne. rewrite <- cmdline_split_total by exact Hne.
  destruct k as [argv|ws t].
  - destruct argv as [|a r]; [cbn in Hne; congruence|]. apply cmdline_split_argv; [congruence|exact Hwf].
  - now apply cmdline_split_title.
Qed.

(* ---------------------------------------------------------------- environ(): every byte block *)
Lemma find_byte_lt b l n : find_byte b l = Some n -> (n < length l)%nat.
Proof.
  revert n. induction l as [|c r IH]; intros n; [discriminate|]. cbn [find_byte length].
  destruct (c =? b); [intros H; inversion H; lia|].
  destruct (find_byte b r) as [m|]; [|discriminate]. intros H. inversion H; subst.
  specialize (IH m eq_refl). lia.
Qed.

Lemma env_loop_total : forall fuel rest d,
  (length rest < fuel)%nat -> NoDup (map fst d) ->
  exists d', env_loop fuel rest d = Val d' /\ NoDup (map fst d').
Proof.
  induction fuel as [|f IH]; intros rest d Hlen Hnd; [lia|].
  cbn [env_loop]. destruct (find_byte 0 rest) as [n|] eqn:E; [|eauto].
  destruct n as [|n']; [eauto|].
  apply find_byte_lt in E. apply IH.
  - rewrite skipn_length. lia.
  - destruct (find_byte 61 (firstn (S n') rest)) as [[|m]|]; try exact Hnd. now apply aset_nodup.
Qed.

Lemma environ_total : forall data,
  exists d, pl_environ now (view_env_bytes data) = Val d /\ NoDup (map fst d).
Proof.
  intros data. unfold pl_environ. cbn [view_env_bytes v_environ read_text now nl_translate].
  unfold parse_environ_block. apply env_loop_total; [lia|constructor].
Qed.

(* every byte block IS a printed environment record: print (read data) = data, well-formed *)
Lemma find_byte_split b l n :
  find_byte b l = Some n -> l = firstn n l ++ b :: skipn (S n) l /\ contains b (firstn n l) = false.
Proof.
  revert n. induction l as [|c r IH]; intros n; [discriminate|]. cbn [find_byte].
  destruct (c =? b) eqn:E.
  - intros H. inversion H; subst. apply Z.eqb_eq in E. subst. split; reflexivity.
  - destruct (find_byte b r) as [m|]; [|discriminate]. intros H. inversion H; subst.
    destruct (IH m eq_refl) as [H1 H2]. split.
    + change (c :: r = c :: (firstn m r ++ b :: skipn (S m) r)). f_equal. exact H1.
    + cbn [firstn]. rewrite contains_cons, H2, Z.eqb_sym, E. reflexivity.
Qed.

Lemma find_byte_none_inv b l : find_byte b l = None -> contains b l = false.
Proof.
  induction l as [|c r IH]; [reflexivity|]. cbn [find_byte]. rewrite contains_cons.
  destruct (c =? b) eqn:E; [discriminate|]. destruct (find_byte b r); [discriminate|].
  intros _. rewrite Z.eqb_sym, E. now rewrite IH.
Qed.

Lemma contains_false_app b x y : contains b (x ++ y) = false -> contains b x = false /\ contains b y = false.
Proof. rewrite contains_app. apply orb_false_iff. Qed.

Lemma mk_item_ok e :
  e <> [] -> contains 0 e = false -> k_item (mk_item e) = e /\ item_ok (mk_item e) = true.
Proof.
  intros Hne H0. unfold mk_item. destruct (find_byte 61 e) as [[|m]|] eqn:E.
  - cbn [k_item item_ok]. split; [reflexivity|].
    destruct e as [|x e']; [congruence|]. cbn [find_byte] in E.
    destruct (x =? 61) eqn:Ex; [|destruct (find_byte 61 e'); discriminate].
    unfold nul_free. rewrite H0. cbn [prefixb negb andb]. rewrite Z.eqb_sym, Ex. cbn [andb]. apply orb_true_r.
  - destruct (find_byte_split 61 e (S m) E) as [He Hn]. cbn [k_item item_ok]. split; [now rewrite <- He|].
    rewrite He in H0. apply contains_false_app in H0 as [H0a H0b].
    rewrite contains_cons in H0b. apply orb_false_iff in H0b as [_ H0b].
    unfold nul_free. rewrite H0a, H0b, Hn.
    pose proof (find_byte_lt 61 e (S m) E) as Hlt.
    destruct e as [|x e']; [cbn in Hlt; lia|]. reflexivity.
  - cbn [k_item item_ok]. split; [reflexivity|].
    unfold nul_free. rewrite H0, (find_byte_none_inv 61 e E). destruct e; [congruence|reflexivity].
Qed.

Lemma env_items_print : forall l cur its t,
  contains 0 cur = false -> env_items cur l = (its, t) ->
  k_items its ++ k_tail t = cur ++ l /\ forallb item_ok its = true /\ tail_ok t = true.
Proof.
  induction l as [|c r IH]; intros cur its t Hc H; cbn [env_items] in H.
  - destruct cur as [|x cur']; inversion H; subst.
    + repeat split.
    + cbn [k_items map concat k_tail app tail_ok]. rewrite app_nil_r. unfold nul_free. rewrite Hc. repeat split.
  - destruct (c =? 0) eqn:E0.
    + apply Z.eqb_eq in E0. subst c. destruct cur as [|x cur'].
      * inversion H; subst. repeat split.
      * destruct (env_items [] r) as [its' t'] eqn:Er. inversion H; subst.
        destruct (IH [] its' t eq_refl Er) as [Hp [Hi Ht]].
        destruct (mk_item_ok (x :: cur')) as [Hk Hok]; [congruence|exact Hc|].
        split; [|split; [|exact Ht]].
        -- unfold k_items. cbn [map concat]. fold (k_items its'). rewrite Hk.
           rewrite <- !app_assoc. cbn [app] in Hp. cbn [app]. f_equal. now rewrite Hp.
        -- cbn [forallb]. now rewrite Hok, Hi.
    + destruct (IH (cur ++ [c]) its t) as [Hp [Hi Ht]]; [|exact H|].
      * rewrite contains_app, Hc, contains_cons. cbn [contains existsb]. rewrite Z.eqb_sym, E0. reflexivity.
      * split; [|split; assumption]. rewrite Hp, <- app_assoc. reflexivity.
Qed.

Lemma env_read_print : forall data, k_environ (env_read data) = data /\ wf_env (env_read data) = true.
Proof.
  intros data. unfold env_read. destruct (env_items [] data) as [its t] eqn:E.
  destruct (env_items_print data [] its t eq_refl E) as [Hp [Hi Ht]].
  unfold k_environ, wf_env. cbn [e_items e_tail]. split; [exact Hp|]. now rewrite Hi, Ht.
Qed.

(* the full answer for every byte block *)
Lemma environ_total_spec : forall data,
  exists d, pl_environ now (view_env_bytes data) = Val d /\ NoDup (map fst d) /\
            forall k, aget k d = env_last k (e_items (env_read data)).
Proof.
  intros data. destruct (env_read_print data) as [Hp Hwf].
  destruct (environ_lookup_now (env_read data) Hwf) as [d [Hd [Hn Hl]]].
  exists d. split; [|split; assumption].
  rewrite <- Hd. unfold view_env, view_env_bytes. now rewrite Hp.
Qed.

(* ---------------------------------------------------------------- exe()/cwd(): the table *)
Lemma link_decision_table : forall c v l,
  withheld l = true ->
  pl_readlink v l = link_table (v_stat v) (v_stat_denied v)
  /\ (v_cwd v = l -> pl_cwd v = link_table (v_stat v) (v_stat_denied v))
  /\ (v_exe v = l -> v_stat v <> Some false -> (v_stat v = None -> v_stat_denied v = false) ->
      fe_exe c None v = (link_table (v_stat v) (v_stat_denied v), None)).
Proof.
  intros c v l Hl.
  assert (H : pl_readlink v l = link_table (v_stat v) (v_stat_denied v)).
  { destruct l; try discriminate; cbn [pl_readlink]; unfold probe_stat, link_table, wrap, is_zombie;
      destruct (v_stat v) as [[|]|]; destruct (v_stat_denied v); reflexivity. }
  split; [exact H|]. split.
  - intros E. unfold pl_cwd. now rewrite E.
  - intros E Hlive Hden. unfold fe_exe, pl_exe. rewrite E, H. unfold link_table.
    destruct (v_stat v) as [[|]|]; [reflexivity|congruence|].
    rewrite (Hden eq_refl). reflexivity.
Qed.

(* ---------------------------------------------------------------- described-by-repetition inputs of any size *)
Lemma contains_concat_repeat b u n : contains b u = false -> contains b (concat (repeat u n)) = false.
Proof.
  intros H. induction n as [|n IH]; [reflexivity|]. cbn [repeat concat]. now rewrite contains_app, H, IH.
Qed.

Lemma big_arg_nul_free g : group_ok g = true -> nul_free (big_arg g) = true.
Proof.
  unfold group_ok, nul_free, big_arg. intros H. apply andb_true_iff in H as [Hu Ht].
  apply negb_true_iff in Hu, Ht. now rewrite contains_app, contains_concat_repeat, Ht.
Qed.

Lemma forallb_repeat {A} (f : A -> bool) x n : f x = true -> forallb f (repeat x n) = true.
Proof. intros H. induction n as [|n IH]; [reflexivity|]. cbn. now rewrite H, IH. Qed.

Lemma expand_args_nul_free gs : forallb group_ok gs = true -> forallb nul_free (expand_args gs) = true.
Proof.
  unfold expand_args. induction gs as [|g gs IH]; [reflexivity|]. cbn [forallb map concat]. intros H.
  apply andb_true_iff in H as [Hg Hr]. rewrite forallb_app, IH by exact Hr.
  rewrite forallb_repeat; [reflexivity|now apply big_arg_nul_free].
Qed.

(* every argument vector described by repetition, however large: cmdline() returns every argument *)
Lemma cmdline_repeat : forall gs zombie,
  forallb group_ok gs = true -> expand_args gs <> [] -> single_space (expand_args gs) = false ->
  pl_cmdline now (view_cmd (KArgv (expand_args gs)) zombie) = Val (expand_args gs).
Proof. intros gs z H1 H2 H3. apply cmdline_argv_now; [exact H2|now apply expand_args_nul_free|exact H3]. Qed.

(* decimal indices contain digits only *)
Lemma dec_fuel_digits : forall fuel z, 0 <= z -> forallb (fun c => (48 <=? c) && (c <=? 57)) (dec_fuel fuel z) = true.
Proof.
  induction fuel as [|f IH]; intros z Hz; [reflexivity|]. cbn [dec_fuel].
  destruct (z <? 10) eqn:E.
  - cbn [forallb]. lia.
  - rewrite forallb_app, IH by (apply Z.div_pos; lia). cbn [forallb].
    pose proof (Z.mod_pos_bound z 10 ltac:(lia)). lia.
Qed.

Lemma digits_free b l :
  (b <? 48) || (57 <? b) = true -> forallb (fun c => (48 <=? c) && (c <=? 57)) l = true -> contains b l = false.
Proof.
  intros Hb. induction l as [|c r IH]; [reflexivity|]. cbn [forallb]. intros H. apply andb_true_iff in H as [Hc Hr].
  rewrite contains_cons, IH by exact Hr. lia.
Qed.

Definition egroup_ok (g : egroup) : bool :=
  match eg_prefix g with [] => false | _ => true end
  && nul_free (eg_prefix g) && negb (contains 61 (eg_prefix g)) && group_ok (eg_value g).

Lemma expand_egroup_ok start g : egroup_ok g = true -> forallb item_ok (expand_egroup start g) = true.
Proof.
  unfold egroup_ok, expand_egroup. intros H.
  apply andb_true_iff in H as [H Hv]. apply andb_true_iff in H as [H H61]. apply andb_true_iff in H as [Hne H0].
  apply negb_true_iff in H61. unfold nul_free in H0. apply negb_true_iff in H0.
  induction (seq start (g_times (eg_value g))) as [|i l IH]; [reflexivity|].
  cbn [map forallb]. rewrite IH, andb_true_r. cbn [item_ok].
  pose proof (dec_fuel_digits 20 (Z.of_nat i) ltac:(lia)) as Hd. fold (dec_of_nat i) in Hd.
  rewrite big_arg_nul_free by exact Hv.
  unfold nul_free. rewrite !contains_app, H0, H61.
  rewrite (digits_free 0 _ eq_refl Hd), (digits_free 61 _ eq_refl Hd). cbn [orb negb andb].
  destruct (eg_prefix g); [discriminate|reflexivity].
Qed.

Lemma expand_env_ok : forall gs start, forallb egroup_ok gs = true -> forallb item_ok (expand_env start gs) = true.
Proof.
  induction gs as [|g gs IH]; intros start H; [reflexivity|]. cbn [forallb] in H. apply andb_true_iff in H as [Hg Hr].
  cbn [expand_env]. now rewrite forallb_app, expand_egroup_ok, IH.
Qed.

(* every environment described by repetition, however large: environ() holds every variable *)
Lemma environ_repeat : forall gs,
  forallb egroup_ok gs = true ->
  exists d, pl_environ now (view_env {| e_items := expand_env 0 gs; e_tail := ENone |}) = Val d /\ NoDup (map fst d) /\
            forall k, aget k d = env_last k (expand_env 0 gs).
Proof.
  intros gs H. apply environ_lookup_now. unfold wf_env. cbn [e_items e_tail tail_ok]. now rewrite expand_env_ok.
Qed.
