(* A Process object is bound to the procfs mount that was configured when it was
   created (psutil/_pslinux.py: Process.__init__ snapshots get_procfs_path() into
   self._procfs_path; open_files, num_fds and io_counters build every path from that
   snapshot).  psutil.PROCFS_PATH may be re-assigned later: the world then holds two
   views of the same PID, the one the object is bound to and the one the module
   global currently points at.  The model reads only the bound view. *)
From PV Require Export C14.Spec.

Record pidview := { v_fds : list fdent; v_alive : bool; v_io : bytes }.
Record mounts := { m_bound : pidview; m_current : pidview }.

Definition proc_open_files (m : mounts) : outcome (list ofrow) :=
  open_files (v_fds (m_bound m)) (v_alive (m_bound m)).
Definition proc_num_fds (m : mounts) : Z := num_fds (v_fds (m_bound m)).
Definition proc_io_counters (strict : bool) (m : mounts) : outcome (list Z) :=
  io_counters strict (v_io (m_bound m)).

