(* Extra byte-string lemmas used by the C14 proofs. *)
From PV Require Import C14.Spec.

Lemma lstrip_head l : head_nows l = true -> lstrip l = l.
Proof. destruct l as [|c l]; [discriminate|]. cbn [head_nows lstrip]. intros H. apply negb_true_iff in H. now rewrite H. Qed.

Lemma rstrip_last l : last_nows l = true -> rstrip l = l.
Proof. unfold last_nows, rstrip. intros H. rewrite lstrip_head by exact H. apply rev_involutive. Qed.

Lemma head_nows_app x y : head_nows x = true -> head_nows (x ++ y) = true.
Proof. destruct x; [discriminate|]. auto. Qed.

Lemma last_nows_app x y : last_nows y = true -> last_nows (x ++ y) = true.
Proof. unfold last_nows. rewrite rev_app_distr. apply head_nows_app. Qed.

Lemma head_nows_nonempty l : head_nows l = true -> l <> [].
Proof. destruct l; [discriminate|congruence]. Qed.

Lemma strip_line x : head_nows x = true -> last_nows x = true -> strip (x ++ [10]) = x.
Proof.
  intros Hh Hl. unfold strip. rewrite lstrip_head by (now apply head_nows_app).
  rewrite rstrip_snoc. change (is_ws 10) with true. cbv iota. now apply rstrip_last.
Qed.

Lemma no_ws_head_last v : v <> [] -> no_ws v = true -> head_nows v = true /\ last_nows v = true.
Proof.
  intros Hne Hnw. split.
  - destruct v as [|c v]; [congruence|]. cbn [no_ws forallb] in Hnw. apply andb_true_iff in Hnw as [Hc _]. exact Hc.
  - unfold last_nows. rewrite <- no_ws_rev in Hnw. destruct (rev v) as [|c r] eqn:E.
    + apply (f_equal (@rev Z)) in E. rewrite rev_involutive in E. cbn in E. congruence.
    + cbn [no_ws forallb] in Hnw. apply andb_true_iff in Hnw as [Hc _]. exact Hc.
Qed.

Lemma split_seq_three a b c s1 s2 :
  contains s1 a = false -> contains s1 b = false -> contains s1 c = false ->
  split_seq [s1; s2] (a ++ s1 :: s2 :: b ++ s1 :: s2 :: c) = [a; b; c].
Proof.
  unfold split_seq. intros Ha Hb Hc. induction a as [|x a IH].
  - cbn [app split_seq_aux prefixb length Nat.sub]. rewrite !Z.eqb_refl. cbn [andb].
    f_equal. apply (split_seq_two b c s1 s2 Hb Hc).
  - rewrite contains_cons in Ha. apply orb_false_iff in Ha as [Hx Ha].
    change ((x :: a) ++ s1 :: s2 :: b ++ s1 :: s2 :: c) with (x :: (a ++ s1 :: s2 :: b ++ s1 :: s2 :: c)).
    cbn [split_seq_aux prefixb]. rewrite Hx. cbn [andb]. now rewrite IH.
Qed.
