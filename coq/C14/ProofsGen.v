(* The program translated from the current source of file_flags_to_mode (Gen/C14_Tables.v)
   computes the model's function on every flag word; the constants translated from
   Process.io_counters are the model's.  The first is a finite sweep lifted by a lemma: a
   program reads [flags] only through [flags & mask], so its result is determined by
   [flags & M] (M = all masks or-ed), which lies in [0, M]. *)
From PV Require Import Base.Bits C14.Spec C14.PyMini Gen.C14_Tables C14.Proofs C14.ProofsIO.

Lemma land_le_r a m : 0 <= a -> 0 <= m -> 0 <= Z.land a m <= m.
Proof.
  intros Ha Hm. apply Z.ldiff_le; [exact Hm|].
  apply Z.bits_inj'. intros n Hn.
  rewrite Z.ldiff_spec, Z.land_spec, Z.bits_0.
  destruct (Z.testbit a n), (Z.testbit m n); reflexivity.
Qed.

Lemma land_land_within flags M c : Z.land M c = c -> Z.land (Z.land flags M) c = Z.land flags c.
Proof. intros H. now rewrite <- Z.land_assoc, H. Qed.

Definition within (M : Z) (s : mstmt) : bool := Z.land M (stmt_mask s) =? stmt_mask s.

Lemma step_land M flags st s :
  within M s = true -> step (Z.land flags M) st s = step flags st s.
Proof.
  unfold within. intros H. apply Z.eqb_eq in H.
  destruct s as [t m | [g|] old new cnt]; cbn [stmt_mask] in H; unfold step.
  - now rewrite (land_land_within flags M _ H).
  - now rewrite (land_land_within flags M _ H).
  - reflexivity.
Qed.

Lemma fold_step_land M flags p : forall st,
  forallb (within M) p = true ->
  fold_left (step (Z.land flags M)) p st = fold_left (step flags) p st.
Proof.
  induction p as [|s p IH]; intros st H; [reflexivity|].
  cbn [forallb] in H. apply andb_true_iff in H as [Hs Hp].
  cbn [fold_left]. rewrite (step_land M flags st s Hs). now apply IH.
Qed.

Lemma run_prog_land M flags p :
  forallb (within M) p = true -> run_prog p (Z.land flags M) = run_prog p flags.
Proof. intros H. unfold run_prog. now rewrite (fold_step_land M flags p _ H). Qed.

(* the model reads flags through & 3 and & O_APPEND *)
Lemma model_land M flags :
  Z.land M 3 = 3 -> Z.land M 1024 = 1024 ->
  file_flags_to_mode (Z.land flags M) = file_flags_to_mode flags.
Proof.
  intros H3 HA. unfold file_flags_to_mode, has_append, O_APPEND.
  now rewrite (land_land_within flags M 3 H3), (land_land_within flags M 1024 HA).
Qed.

Definition out_eqb (a b : outcome bytes) : bool :=
  match a, b with
  | Val x, Val y => beqb x y
  | Exc KeyError, Exc KeyError => true
  | _, _ => false
  end.
Lemma out_eqb_eq a b : out_eqb a b = true -> a = b.
Proof.
  destruct a as [x|[]|]; destruct b as [y|[]|]; cbn; try discriminate; intros H; try reflexivity.
  apply beqb_eq in H. now subst.
Qed.

Definition model_mode (flags : Z) : outcome bytes := omap fmode_bytes (file_flags_to_mode flags).

(* all masks of the translated program plus the model's *)
Definition M_all : Z := Z.lor (prog_mask gen_mode_prog) 1027.

Definition sweep : bool :=
  forallb (fun k => out_eqb (run_prog gen_mode_prog (Z.of_nat k)) (model_mode (Z.of_nat k)))
          (seq 0 (S (Z.to_nat M_all))).

Lemma sweep_ok : sweep = true.                       Proof. vm_compute. reflexivity. Qed.
Lemma within_ok : forallb (within M_all) gen_mode_prog = true. Proof. vm_compute. reflexivity. Qed.
Lemma M_all_3 : Z.land M_all 3 = 3.                  Proof. vm_compute. reflexivity. Qed.
Lemma M_all_A : Z.land M_all 1024 = 1024.            Proof. vm_compute. reflexivity. Qed.
Lemma M_all_nonneg : 0 <= M_all.                     Proof. vm_compute. discriminate. Qed.

Theorem gen_mode_prog_correct : forall flags, 0 <= flags ->
  run_prog gen_mode_prog flags = model_mode flags.
Proof.
  intros flags Hf.
  rewrite <- (run_prog_land M_all flags _ within_ok).
  unfold model_mode. rewrite <- (model_land M_all flags M_all_3 M_all_A).
  pose proof (land_le_r flags M_all Hf M_all_nonneg) as [Hlo Hhi].
  set (k := Z.land flags M_all) in *.
  pose proof sweep_ok as Hs. unfold sweep in Hs. rewrite forallb_forall in Hs.
  specialize (Hs (Z.to_nat k)). rewrite Z2Nat.id in Hs by exact Hlo.
  apply out_eqb_eq. apply Hs. apply in_seq. lia.
Qed.

Lemma gen_mode_prog_table : forall flags, 0 <= flags ->
  run_prog gen_mode_prog flags = omap fmode_bytes (of_option KeyError (spec_mode flags)).
Proof.
  intros flags H. rewrite gen_mode_prog_correct by exact H. unfold model_mode.
  now rewrite mode_table.
Qed.

(* constants of Process.io_counters *)
Theorem gen_io_tables_correct :
  gen_pio_keys = io_keys /\ gen_io_sep = colon_sp /\
  gen_pio_fields = [bs "read_count"; bs "write_count"; bs "read_bytes"; bs "write_bytes"; bs "read_chars"; bs "write_chars"].
Proof. repeat split; vm_compute; reflexivity. Qed.

(* ------------------------------------------------ the kernel keeps what the mode depends on
   [k_open_flags] clears bits 6..9 and 19 and sets bits 15 (and 19): bits 0, 1 (access mode)
   and 10 (O_APPEND) are those of the open(2) request, so the mode string computed from the
   kernel's word describes how the file was opened. *)
Lemma testbit_k_open_flags req c n :
  0 <= n -> n <> 6 -> n <> 7 -> n <> 8 -> n <> 9 -> n <> 15 -> n <> 19 ->
  Z.testbit (k_open_flags req c) n = Z.testbit req n.
Proof.
  intros Hn H6 H7 H8 H9 H15 H19. unfold k_open_flags, creation_mask, O_LARGEFILE, O_CLOEXEC.
  assert (T960 : Z.testbit 960 n = false).
  { change 960 with (Z.lor (Z.lor (2 ^ 6) (2 ^ 7)) (Z.lor (2 ^ 8) (2 ^ 9))).
    rewrite !Z.lor_spec, !Z.pow2_bits_eqb by lia.
    repeat match goal with |- context [Z.eqb ?a ?b] => destruct (Z.eqb_spec a b); [lia|] end. reflexivity. }
  assert (TL : Z.testbit 32768 n = false).
  { change 32768 with (2 ^ 15). rewrite Z.pow2_bits_eqb by lia. destruct (Z.eqb_spec 15 n); [lia|reflexivity]. }
  assert (TC : Z.testbit 524288 n = false).
  { change 524288 with (2 ^ 19). rewrite Z.pow2_bits_eqb by lia. destruct (Z.eqb_spec 19 n); [lia|reflexivity]. }
  destruct c; rewrite ?Z.lor_spec, !Z.ldiff_spec, ?T960, ?TL, ?TC; cbn [negb andb orb];
    now rewrite ?andb_true_r, ?orb_false_r.
Qed.

Lemma k_open_flags_nonneg req c : 0 <= req -> 0 <= k_open_flags req c.
Proof.
  intros H. unfold k_open_flags.
  assert (0 <= Z.lor (Z.ldiff (Z.ldiff req creation_mask) O_CLOEXEC) O_LARGEFILE).
  { apply Z.lor_nonneg. split; [|unfold O_LARGEFILE; lia].
    apply Z.ldiff_nonneg. left. apply Z.ldiff_nonneg. now left. }
  destruct c; [apply Z.lor_nonneg; split; [assumption|unfold O_CLOEXEC; lia]|assumption].
Qed.

Lemma mod4_bits a b : 0 <= a -> 0 <= b ->
  Z.testbit a 0 = Z.testbit b 0 -> Z.testbit a 1 = Z.testbit b 1 -> a mod 4 = b mod 4.
Proof.
  intros Ha Hb H0 H1. change 4 with (2 ^ 2). rewrite <- !Z.land_ones by lia.
  apply Z.bits_inj'. intros n Hn. rewrite !Z.land_spec.
  destruct (Z.eq_dec n 0) as [->|N0]; [now rewrite H0|].
  destruct (Z.eq_dec n 1) as [->|N1]; [now rewrite H1|].
  rewrite Z.ones_spec_high by lia. now rewrite !andb_false_r.
Qed.

Theorem kernel_keeps_mode : forall req c, 0 <= req ->
  spec_mode (k_open_flags req c) = spec_mode req.
Proof.
  intros req c Hr. pose proof (k_open_flags_nonneg req c Hr) as Hk.
  unfold spec_mode.
  assert (M : k_open_flags req c mod 4 = req mod 4).
  { apply mod4_bits; auto; apply testbit_k_open_flags; lia. }
  assert (A : Z.odd (k_open_flags req c / 2 ^ 10) = Z.odd (req / 2 ^ 10)).
  { rewrite <- !testbit_odd_div by lia. apply testbit_k_open_flags; lia. }
  rewrite M. change 1024 with (2 ^ 10) in *. now rewrite A.
Qed.

(* ------------------------------------------------ the translated loop body of io_counters
   equals the hand-written [io_line] (repaired code: strict = false) on every line *)
From PV Require Import C14.PyLoop.

Theorem gen_io_loop_correct : forall d line, io_line_gen gen_io_loop d line = io_line false d line.
Proof.
  intros d line. unfold io_line_gen, io_line, gen_io_loop, colon_sp.
  cbn [run_lprog exec set_line l_line l_name l_value l_fields].
  destruct (strip line) as [|c l] eqn:Hs; [reflexivity|].
  cbn [exec set_line set_nv set_value set_fields l_line l_name l_value l_fields].
  destruct (split_seq [58; 32] (c :: l)) as [|n [|v [|x r]]]; try reflexivity.
  cbn [set_nv set_value set_fields l_line l_name l_value l_fields].
  destruct (parse_int v) as [z|]; reflexivity.
Qed.

(* the loop of io_counters over all lines, with the translated body *)
Fixpoint io_fold_gen (p : lprog) (d : list (bytes * Z)) (ls : list bytes) : outcome (list (bytes * Z)) :=
  match ls with
  | [] => Val d
  | l :: r => do d' <- io_line_gen p d l; io_fold_gen p d' r
  end.

Lemma io_fold_gen_correct : forall ls d, io_fold_gen gen_io_loop d ls = io_fold false d ls.
Proof.
  induction ls as [|l r IH]; intros d; [reflexivity|].
  cbn [io_fold_gen io_fold]. rewrite gen_io_loop_correct.
  destruct (io_line false d l) as [d'| |]; cbn [obind]; auto.
Qed.

Definition io_counters_gen (content : bytes) : outcome (list Z) :=
  do d <- io_fold_gen gen_io_loop [] (lines_keep content);
  match d with
  | [] => Exc RuntimeError
  | _ => mapM (fun k => of_option ValueError (assoc_get k d)) gen_pio_keys
  end.

Theorem io_counters_gen_correct : forall content, io_counters_gen content = io_counters false content.
Proof.
  intros content. unfold io_counters_gen, io_counters. rewrite io_fold_gen_correct.
  destruct gen_io_tables_correct as [Hk _]. now rewrite Hk.
Qed.

Lemma io_counters_gen_roundtrip : forall items,
  forallb ioitem_ok items = true -> io_counters_gen (k_io items) = spec_io items.
Proof. intros items H. rewrite io_counters_gen_correct. now apply io_roundtrip. Qed.

(* ------------------------------------------------ readlink() and the strict stat helpers,
   translated from the source, are what the model assumes *)
From PV Require Import C14.PyPath.

Theorem gen_readlink_correct : forall raw ex, run_readlink gen_readlink raw ex = Val (readlink_clean raw ex).
Proof.
  intros raw ex. unfold run_readlink, gen_readlink, readlink_clean, deleted_sfx.
  cbn [fold_left rstep obind]. reflexivity.
Qed.

(* isfile_strict: a permission failure of stat() is re-raised (-> AccessDenied), EVERY other OSError means
   "not a regular file", success gives S_ISREG; path_exists_strict: the same with True on success *)
Theorem gen_strict_helpers_correct :
  (forall s, strict_answer gen_isfile_strict s =
             match s with StOk r => SBool r | StErr EPerm => SDenied | StErr _ => SBool false end) /\
  (forall s, strict_answer gen_path_exists_strict s =
             match s with StOk _ => SBool true | StErr EPerm => SDenied | StErr _ => SBool false end).
Proof. split; intros [r|[]]; vm_compute; reflexivity. Qed.
