(* C14 -- what the kernel shows for a descriptor table, and what the property
   says open_files() / num_fds() / io_counters() must answer. Written from
   proc(5) (fd, fdinfo, io), not from psutil's code. *)
From PV Require Export C14.Model.

(* mode string implied by the open flags: access mode = flags mod 4,
   O_APPEND = bit 10 *)
Definition spec_mode (flags : Z) : option fmode :=
  let acc := flags mod 4 in
  let app := Z.odd (flags / 1024) in
  if acc =? 0 then Some Mr
  else if acc =? 1 then Some (if app then Ma else Mw)
  else if acc =? 2 then Some (if app then Map else Mrp)
  else None.

Inductive closing := StillOpen | ClosedBeforeReadlink | ClosedBeforeFdinfo | ClosedDuringFdinfoRead.

Record kfd := {
  k_fd : bytes;          (* directory entry name: decimal *)
  k_raw : bytes;         (* link target as readlink(2) returns it *)
  k_exists_cut : bool;   (* does a file named by the NUL-cut target exist? *)
  k_isreg : bool;        (* is the cleaned target a regular file? *)
  k_pos : bytes;         (* decimal offset *)
  k_flags : bytes;       (* octal digits of the flag word *)
  k_extra : bytes;       (* remaining fdinfo lines (mnt_id, ino, ...) *)
  k_closing : closing }.

Definition k_fdinfo (e : kfd) : bytes :=
  bs "pos:" ++ 9 :: k_pos e ++ 10 :: bs "flags:" ++ 9 :: 48 :: k_flags e ++ 10 :: k_extra e.

Definition wf_kfd (e : kfd) : bool :=
  is_dec (k_fd e) && is_dec (k_pos e) && all_oct (k_flags e)
  && match k_flags e with [] => false | _ => true end.

Definition to_model (e : kfd) : fdent :=
  {| fd_name := k_fd e;
     fd_link := match k_closing e with
                | ClosedBeforeReadlink => LENOENT
                | _ => LTarget (k_raw e) (k_exists_cut e) end;
     fd_isfile := if k_isreg e then IsReg else NotReg;
     fd_info := match k_closing e with
                | ClosedBeforeFdinfo => FENOENT
                | ClosedDuringFdinfoRead => FReadENOENT
                | _ => FContent (k_fdinfo e) end |}.

Definition k_path (e : kfd) : bytes := readlink_clean (k_raw e) (k_exists_cut e).

(* listed: still open through the scan, absolute path, regular file *)
Definition listed (e : kfd) : bool :=
  match k_closing e with
  | StillOpen => prefixb [47] (k_path e) && k_isreg e
  | _ => false
  end.

Definition accmode3 (e : kfd) : bool := oct_val (k_flags e) mod 4 =? 3.

Definition spec_row (e : kfd) : option ofrow :=
  match spec_mode (oct_val (k_flags e)) with
  | Some m => Some {| r_path := k_path e; r_fd := dec_val (k_fd e); r_pos := dec_val (k_pos e);
                      r_mode := m; r_flags := oct_val (k_flags e) |}
  | None => None
  end.

Fixpoint spec_rows (es : list kfd) : list ofrow :=
  match es with
  | [] => []
  | e :: r => if listed e then
                match spec_row e with Some row => row :: spec_rows r | None => spec_rows r end
              else spec_rows r
  end.

Definition has_closing_b (es : list kfd) : bool :=
  existsb (fun e => match k_closing e with StillOpen => false | _ => true end) es.
Definition no_mode3_b (es : list kfd) : bool :=
  forallb (fun e => negb (listed e && accmode3 e)) es.

(* /proc/<pid>/io *)
Inductive ioitem :=
| KV (name value : bytes)      (* "name: <decimal>"  *)
| Junk (j : bytes)             (* blank or colon-free line *)
| BadKV (name value : bytes)   (* "name: <not a number>" e.g. "rchar: 999 (partial)", "syscw: 7x" *)
| Bad3 (name a b : bytes).     (* "name: a: b" -- more than one ": " *)
Definition is_lower_us (c : Z) : bool := ((97 <=? c) && (c <=? 122)) || (c =? 95).
Definition is_name_ch (c : Z) : bool := is_lower_us c || (c =? 32).
Definition head_nows (v : bytes) : bool := match v with c :: _ => negb (is_ws c) | [] => false end.
Definition last_nows (v : bytes) : bool := head_nows (rev v).
(* a field name: letters, '_' and inner blanks ("old read_bytes" is just another name) *)
Definition io_name_ok (n : bytes) : bool := forallb is_name_ch n && head_nows n && last_nows n.
Definition seg_ok (x : bytes) : bool := negb (contains 58 x) && negb (contains 10 x).
(* a right-hand side Python's int() rejects *)
Definition bad_val (v : bytes) : bool :=
  head_nows v && last_nows v && seg_ok v && match parse_int v with None => true | Some _ => false end.
Definition junk_ok (j : bytes) : bool := seg_ok j.
Definition ioitem_ok (i : ioitem) : bool :=
  match i with
  | KV n v => io_name_ok n && is_dec v
  | Junk j => junk_ok j
  | BadKV n v => io_name_ok n && bad_val v
  | Bad3 n a b => io_name_ok n && seg_ok a && seg_ok b && last_nows b
  end.
Definition k_ioline (i : ioitem) : bytes :=
  match i with
  | KV n v | BadKV n v => (n ++ 58 :: 32 :: v) ++ [10]
  | Junk j => j ++ [10]
  | Bad3 n a b => (n ++ 58 :: 32 :: a ++ 58 :: 32 :: b) ++ [10]
  end.
Definition k_io (items : list ioitem) : bytes := concat (map k_ioline items).

Definition io_upd (k : bytes) (i : ioitem) (acc : option Z) : option Z :=
  match i with
  | KV n v => if beqb k n then Some (dec_val v) else acc
  | _ => acc
  end.
Fixpoint io_last (k : bytes) (items : list ioitem) (acc : option Z) : option Z :=
  match items with
  | [] => acc
  | i :: r => io_last k r (io_upd k i acc)
  end.
Definition is_kv (i : ioitem) : bool := match i with KV _ _ => true | _ => false end.
Definition has_kv (items : list ioitem) : bool := existsb is_kv items.
(* the six documented counters, each the value of the last well-formed line carrying that name;
   every other line is ignored; no well-formed line at all -> RuntimeError; a counter absent -> ValueError *)
Definition spec_io (items : list ioitem) : outcome (list Z) :=
  if has_kv items then
    mapM (fun k => of_option ValueError (io_last k items None)) io_keys
  else Exc RuntimeError.

(* ------------------------------------------------ the real kernel (live cases)
   What fs/proc/fd.c prints as "flags:" for a descriptor obtained with open(2) flags [req]
   on a 64-bit kernel: the creation flags O_CREAT|O_EXCL|O_NOCTTY|O_TRUNC (0o1700) are not
   kept in f_flags, O_LARGEFILE (0o100000) is forced, and O_CLOEXEC (0o2000000) reflects the
   descriptor's close-on-exec bit ([cloexec]; Python's os.open always sets it). *)
Definition creation_mask : Z := 960.     (* 0o1700 *)
Definition O_LARGEFILE : Z := 32768.     (* 0o100000 *)
Definition O_CLOEXEC : Z := 524288.      (* 0o2000000 *)
Definition k_open_flags (req : Z) (cloexec : bool) : Z :=
  let f := Z.lor (Z.ldiff (Z.ldiff req creation_mask) O_CLOEXEC) O_LARGEFILE in
  if cloexec then Z.lor f O_CLOEXEC else f.
