From PV Require Import C14.Spec C14.Lib.

Lemma namech_no_colon n : forallb is_name_ch n = true -> contains 58 n = false.
Proof.
  induction n as [|c n IH]; auto. cbn [forallb]. intros H.
  apply andb_true_iff in H as [Hc Hn]. rewrite contains_cons, (IH Hn).
  unfold is_name_ch, is_lower_us in Hc. lia.
Qed.
Lemma namech_no_nl n : forallb is_name_ch n = true -> contains 10 n = false.
Proof.
  induction n as [|c n IH]; auto. cbn [forallb]. intros H.
  apply andb_true_iff in H as [Hc Hn]. rewrite contains_cons, (IH Hn).
  unfold is_name_ch, is_lower_us in Hc. lia.
Qed.
Lemma digits_no_colon n : all_digits n = true -> contains 58 n = false.
Proof.
  induction n as [|c n IH]; auto. cbn [all_digits forallb]. intros H.
  apply andb_true_iff in H as [Hc Hn]. rewrite contains_cons. fold (all_digits n) in Hn.
  rewrite (IH Hn). unfold is_digit in Hc. lia.
Qed.

Lemma name_ok_inv n : io_name_ok n = true ->
  forallb is_name_ch n = true /\ head_nows n = true /\ last_nows n = true.
Proof. unfold io_name_ok. intros H. apply andb_true_iff in H as [H H3]. apply andb_true_iff in H as [H1 H2]. auto. Qed.

Lemma seg_ok_inv x : seg_ok x = true -> contains 58 x = false /\ contains 10 x = false.
Proof. unfold seg_ok. intros H. apply andb_true_iff in H as [H1 H2]. split; now apply negb_true_iff. Qed.

Lemma bad_val_inv v : bad_val v = true ->
  head_nows v = true /\ last_nows v = true /\ contains 58 v = false /\ contains 10 v = false /\ parse_int v = None.
Proof.
  unfold bad_val. intros H. apply andb_true_iff in H as [H H4]. apply andb_true_iff in H as [H H3].
  apply andb_true_iff in H as [H1 H2]. apply seg_ok_inv in H3 as [H3 H3'].
  destruct (parse_int v); [discriminate|]. auto.
Qed.

Lemma dec_inv v : is_dec v = true ->
  head_nows v = true /\ last_nows v = true /\ contains 58 v = false /\ contains 10 v = false.
Proof.
  intros H. destruct (is_dec_tok _ H) as [Hne Hnw]. destruct (no_ws_head_last v Hne Hnw) as [Hh Hl].
  destruct v as [|c v]; [congruence|]. cbn [is_dec] in H. repeat split; auto.
  - now apply digits_no_colon.
  - now apply (no_ws_contains 10 _ eq_refl).
Qed.

Lemma line_body_no_nl i : ioitem_ok i = true ->
  exists body, k_ioline i = body ++ [10] /\ contains 10 body = false.
Proof.
  destruct i as [n v|j|n v|n x y]; cbn [ioitem_ok k_ioline]; intros H.
  - apply andb_true_iff in H as [Hn Hv]. apply name_ok_inv in Hn as [Hn _].
    apply dec_inv in Hv as [_ [_ [_ Hv]]].
    eexists. split; [reflexivity|]. rewrite contains_app, !contains_cons, (namech_no_nl _ Hn), Hv. reflexivity.
  - apply seg_ok_inv in H as [_ H]. eauto.
  - apply andb_true_iff in H as [Hn Hv]. apply name_ok_inv in Hn as [Hn _].
    apply bad_val_inv in Hv as [_ [_ [_ [Hv _]]]].
    eexists. split; [reflexivity|]. rewrite contains_app, !contains_cons, (namech_no_nl _ Hn), Hv. reflexivity.
  - apply andb_true_iff in H as [H _]. apply andb_true_iff in H as [H Hy]. apply andb_true_iff in H as [Hn Hx].
    apply name_ok_inv in Hn as [Hn _]. apply seg_ok_inv in Hx as [_ Hx]. apply seg_ok_inv in Hy as [_ Hy].
    eexists. split; [reflexivity|].
    rewrite contains_app, !contains_cons, contains_app, !contains_cons, (namech_no_nl _ Hn), Hx, Hy. reflexivity.
Qed.

Lemma lines_keep_k_io items :
  forallb ioitem_ok items = true -> lines_keep (k_io items) = map k_ioline items.
Proof.
  induction items as [|i items IH]; intros H; [reflexivity|].
  cbn [forallb] in H. apply andb_true_iff in H as [Hi Hr].
  unfold k_io. cbn [map concat]. fold (k_io items).
  destruct (line_body_no_nl i Hi) as [body [-> Hb]].
  rewrite <- app_assoc. cbn [app]. rewrite lines_keep_line by exact Hb. now rewrite IH.
Qed.

(* a "name: rest" line survives strip() unchanged when name starts and rest ends with a non-blank *)
Lemma strip_named n rest :
  head_nows n = true -> last_nows rest = true ->
  strip ((n ++ 58 :: 32 :: rest) ++ [10]) = n ++ 58 :: 32 :: rest.
Proof.
  intros Hn Hr. apply strip_line; [now apply head_nows_app|].
  change (n ++ 58 :: 32 :: rest) with (n ++ [58; 32] ++ rest). rewrite app_assoc. now apply last_nows_app.
Qed.

Lemma named_nonempty (n rest : bytes) : head_nows n = true -> n ++ 58 :: 32 :: rest <> [].
Proof. destruct n; [discriminate|]. discriminate. Qed.

Definition io_step (d : list (bytes * Z)) (i : ioitem) : list (bytes * Z) :=
  match i with KV n v => assoc_set n (dec_val v) d | _ => d end.

Lemma io_line_item d i :
  ioitem_ok i = true -> io_line false d (k_ioline i) = Val (io_step d i).
Proof.
  destruct i as [n v|j|n v|n x y]; cbn [ioitem_ok k_ioline io_step]; intros H.
  - apply andb_true_iff in H as [Hn Hv]. apply name_ok_inv in Hn as [Hn [Hh _]].
    pose proof (dec_inv _ Hv) as [_ [Hl [Hc _]]].
    unfold io_line. rewrite strip_named by assumption.
    pose proof (named_nonempty n v Hh) as E.
    destruct (n ++ 58 :: 32 :: v) eqn:En; [congruence|]. rewrite <- En. clear E En.
    unfold colon_sp. rewrite split_seq_two by (auto using namech_no_colon).
    now rewrite (parse_int_dec _ Hv).
  - apply seg_ok_inv in H as [H1 _].
    unfold io_line. assert (C : contains 58 (strip (j ++ [10])) = false).
    { apply contains_strip_false. rewrite contains_app, H1. reflexivity. }
    destruct (strip (j ++ [10])) as [|c l] eqn:E; [reflexivity|].
    unfold colon_sp. now rewrite (split_seq_nosep _ 58 32 C).
  - apply andb_true_iff in H as [Hn Hv]. apply name_ok_inv in Hn as [Hn [Hh _]].
    apply bad_val_inv in Hv as [_ [Hl [Hc [_ Hp]]]].
    unfold io_line. rewrite strip_named by assumption.
    pose proof (named_nonempty n v Hh) as E.
    destruct (n ++ 58 :: 32 :: v) eqn:En; [congruence|]. rewrite <- En. clear E En.
    unfold colon_sp. rewrite split_seq_two by (auto using namech_no_colon).
    now rewrite Hp.
  - apply andb_true_iff in H as [H Hl]. apply andb_true_iff in H as [H Hy]. apply andb_true_iff in H as [Hn Hx].
    apply name_ok_inv in Hn as [Hn [Hh _]]. apply seg_ok_inv in Hx as [Hx _]. apply seg_ok_inv in Hy as [Hy _].
    unfold io_line. rewrite strip_named; [|assumption|].
    2:{ change (x ++ 58 :: 32 :: y) with (x ++ [58; 32] ++ y). rewrite app_assoc. now apply last_nows_app. }
    pose proof (named_nonempty n (x ++ 58 :: 32 :: y) Hh) as E.
    destruct (n ++ 58 :: 32 :: x ++ 58 :: 32 :: y) eqn:En; [congruence|]. rewrite <- En. clear E En.
    unfold colon_sp. rewrite split_seq_three by (auto using namech_no_colon). reflexivity.
Qed.

Lemma io_fold_items items : forall d,
  forallb ioitem_ok items = true ->
  io_fold false d (map k_ioline items) = Val (fold_left io_step items d).
Proof.
  induction items as [|i items IH]; intros d H; [reflexivity|].
  cbn [forallb] in H. apply andb_true_iff in H as [Hi Hr].
  cbn [map io_fold fold_left]. rewrite (io_line_item d i Hi). cbn [obind]. now apply IH.
Qed.

Lemma assoc_get_set k n v d :
  assoc_get k (assoc_set n v d) = if beqb k n then Some v else assoc_get k d.
Proof.
  induction d as [|[k' v'] d IH]; cbn [assoc_set assoc_get].
  - reflexivity.
  - destruct (beqb n k') eqn:E.
    + apply beqb_eq in E. subst k'. cbn [assoc_get]. destruct (beqb k n); reflexivity.
    + cbn [assoc_get]. rewrite IH. destruct (beqb k k') eqn:E2; [|reflexivity].
      apply beqb_eq in E2. subst k'. assert (beqb k n = false) as ->; [|reflexivity].
      destruct (beqb k n) eqn:E3; [|reflexivity]. apply beqb_eq in E3. subst.
      rewrite beqb_refl in E. discriminate.
Qed.

Lemma assoc_set_nonempty n v d : assoc_set n v d <> [].
Proof. destruct d as [|[k' v'] d]; cbn [assoc_set]; [discriminate|]. destruct (beqb n k'); discriminate. Qed.

Lemma fold_get items : forall d k,
  assoc_get k (fold_left io_step items d) = io_last k items (assoc_get k d).
Proof.
  induction items as [|i items IH]; intros d k; [reflexivity|].
  cbn [fold_left io_last]. rewrite IH. f_equal.
  destruct i as [n v|j|n v|n x y]; cbn [io_step io_upd]; try reflexivity. apply assoc_get_set.
Qed.

Lemma fold_empty items : forall d,
  (fold_left io_step items d = [] <-> d = [] /\ has_kv items = false).
Proof.
  induction items as [|i items IH]; intros d.
  - cbn. tauto.
  - cbn [fold_left]. rewrite IH. unfold has_kv. cbn [existsb].
    destruct i as [n v|j|n v|n x y]; cbn [io_step is_kv orb].
    + split; [intros [H _]; now apply assoc_set_nonempty in H|intros [_ H]; discriminate].
    + tauto.
    + tauto.
    + tauto.
Qed.

Theorem io_roundtrip items :
  forallb ioitem_ok items = true -> io_counters false (k_io items) = spec_io items.
Proof.
  intros H. unfold io_counters, spec_io.
  rewrite (lines_keep_k_io items H), (io_fold_items items [] H). cbn [obind].
  destruct (fold_left io_step items []) as [|p d'] eqn:E.
  - apply fold_empty in E as [_ E]. now rewrite E.
  - assert (Hk : has_kv items = true).
    { destruct (has_kv items) eqn:K; [reflexivity|].
      assert (fold_left io_step items [] = []) as X by (apply fold_empty; auto).
      rewrite X in E. discriminate. }
    rewrite Hk, <- E. apply mapM_ext. intros k. now rewrite fold_get.
Qed.

(* before the repair: a malformed "name: letters" line made the call fail
   although all six counters are present *)
Definition io_witness : list ioitem :=
  [KV (bs "rchar") (bs "1"); KV (bs "wchar") (bs "2"); KV (bs "syscr") (bs "3");
   KV (bs "syscw") (bs "4"); KV (bs "read_bytes") (bs "5"); KV (bs "write_bytes") (bs "6");
   BadKV (bs "foo") (bs "bar")].
Theorem io_strict_refuted :
  exists items, forallb ioitem_ok items = true /\ spec_io items = Val [3; 4; 5; 6; 1; 2]
                /\ io_counters true (k_io items) = Exc ValueError.
Proof. exists io_witness. repeat split; vm_compute; reflexivity. Qed.

Example io_nonvacuous :
  let items := [KV (bs "rchar") (bs "1"); KV (bs "wchar") (bs "2"); Junk []; KV (bs "syscr") (bs "3");
                KV (bs "syscw") (bs "4"); BadKV (bs "foo") (bs "bar"); BadKV (bs "rchar") (bs "999 (partial)");
                BadKV (bs "syscw") (bs "7x"); Bad3 (bs "wchar") (bs "5") (bs "6"); KV (bs "old read_bytes") (bs "123");
                KV (bs "read_bytes") (bs "5");
                KV (bs "write_bytes") (bs "18446744073709551615"); KV (bs "rchar") (bs "9");
                KV (bs "cancelled_write_bytes") (bs "0")] in
  forallb ioitem_ok items = true /\ spec_io items = Val [3; 4; 5; 18446744073709551615; 9; 2].
Proof. vm_compute. auto. Qed.
