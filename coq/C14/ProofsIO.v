From PV Require Import C14.Spec.

Lemma lower_not_ws c : is_lower_us c = true -> is_ws c = false.
Proof. unfold is_lower_us, is_ws. lia. Qed.
Lemma lower_no_ws n : forallb is_lower_us n = true -> no_ws n = true.
Proof.
  induction n as [|c n IH]; cbn [forallb no_ws]; auto. intros H.
  apply andb_true_iff in H as [Hc Hn]. rewrite (lower_not_ws _ Hc). cbn [negb andb]. now apply IH.
Qed.
Lemma lower_no_colon n : forallb is_lower_us n = true -> contains 58 n = false.
Proof.
  induction n as [|c n IH]; auto. cbn [forallb]. intros H.
  apply andb_true_iff in H as [Hc Hn]. rewrite contains_cons, (IH Hn).
  unfold is_lower_us in Hc. lia.
Qed.
Lemma digits_no_colon n : all_digits n = true -> contains 58 n = false.
Proof.
  induction n as [|c n IH]; auto. cbn [all_digits forallb]. intros H.
  apply andb_true_iff in H as [Hc Hn]. rewrite contains_cons. fold (all_digits n) in Hn.
  rewrite (IH Hn). unfold is_digit in Hc. lia.
Qed.

Lemma name_ok_inv n : io_name_ok n = true -> n <> [] /\ forallb is_lower_us n = true.
Proof. destruct n; [discriminate|]. intros H. split; [congruence|exact H]. Qed.

Lemma line_body_no_nl i : ioitem_ok i = true ->
  exists body, k_ioline i = body ++ [10] /\ contains 10 body = false.
Proof.
  destruct i as [n v|j|n v]; cbn [ioitem_ok k_ioline]; intros H.
  - apply andb_true_iff in H as [Hn Hv]. apply name_ok_inv in Hn as [_ Hn].
    destruct v as [|c v]; [discriminate|]. cbn [is_dec] in Hv.
    eexists. split; [reflexivity|]. rewrite contains_app, !contains_cons.
    rewrite (no_ws_contains 10 _ eq_refl (lower_no_ws _ Hn)).
    change (c :: v) with ([] ++ c :: v).
    cbn [app]. rewrite <- contains_cons.
    rewrite (no_ws_contains 10 _ eq_refl (all_digits_no_ws _ Hv)). reflexivity.
  - unfold junk_ok in H. apply andb_true_iff in H as [_ H]. apply negb_true_iff in H. eauto.
  - apply andb_true_iff in H as [Hn Hv]. apply name_ok_inv in Hn as [_ Hn].
    apply name_ok_inv in Hv as [_ Hv].
    eexists. split; [reflexivity|]. rewrite contains_app, !contains_cons.
    rewrite (no_ws_contains 10 _ eq_refl (lower_no_ws _ Hn)).
    rewrite (no_ws_contains 10 _ eq_refl (lower_no_ws _ Hv)). reflexivity.
Qed.

Lemma lines_keep_k_io items :
  forallb ioitem_ok items = true -> lines_keep (k_io items) = map k_ioline items.
Proof.
  induction items as [|i items IH]; intros H; [reflexivity|].
  cbn [forallb] in H. apply andb_true_iff in H as [Hi Hr].
  unfold k_io. cbn [map concat]. fold (k_io items).
  destruct (line_body_no_nl i Hi) as [body [-> Hb]].
  rewrite <- app_assoc. cbn [app]. rewrite lines_keep_line by exact Hb. now rewrite IH.
Qed.

Lemma strip_kv n v :
  n <> [] -> no_ws n = true -> v <> [] -> no_ws v = true ->
  strip ((n ++ 58 :: 32 :: v) ++ [10]) = n ++ 58 :: 32 :: v.
Proof.
  intros Hn1 Hn2 Hv1 Hv2. unfold strip.
  assert (L : lstrip ((n ++ 58 :: 32 :: v) ++ [10]) = (n ++ 58 :: 32 :: v) ++ [10]).
  { destruct n as [|c n]; [congruence|]. cbn [no_ws forallb] in Hn2.
    apply andb_true_iff in Hn2 as [Hc _]. apply negb_true_iff in Hc.
    cbn [app lstrip]. now rewrite Hc. }
  rewrite L, rstrip_snoc. change (is_ws 10) with true. cbv iota.
  change (n ++ 58 :: 32 :: v) with (n ++ [58; 32] ++ v). rewrite app_assoc.
  now apply rstrip_no_ws_tail.
Qed.

Lemma alpha_not_int v : io_name_ok v = true -> parse_int v = None.
Proof.
  intros H. apply name_ok_inv in H as [Hne Hl]. destruct v as [|c v]; [congruence|].
  unfold parse_int, parse_signed. rewrite strip_no_ws by (now apply lower_no_ws).
  cbn [forallb] in Hl. apply andb_true_iff in Hl as [Hc _].
  assert (c =? 45 = false) as -> by (unfold is_lower_us in Hc; lia).
  assert (c =? 43 = false) as -> by (unfold is_lower_us in Hc; lia).
  cbn [digits_us]. unfold digit_val.
  assert ((48 <=? c) && (c <=? 57) = false) as -> by (unfold is_lower_us in Hc; lia).
  unfold is_lower_us in Hc.
  destruct ((97 <=? c) && (c <=? 122)) eqn:E.
  - assert (c - 87 <? 10 = false) as -> by lia. now rewrite andb_false_r.
  - assert (c = 95) as -> by lia. reflexivity.
Qed.

Definition io_step (d : list (bytes * Z)) (i : ioitem) : list (bytes * Z) :=
  match i with KV n v => assoc_set n (dec_val v) d | _ => d end.

Lemma io_line_item d i :
  ioitem_ok i = true -> io_line false d (k_ioline i) = Val (io_step d i).
Proof.
  destruct i as [n v|j|n v]; cbn [ioitem_ok k_ioline io_step]; intros H.
  - apply andb_true_iff in H as [Hn Hv]. apply name_ok_inv in Hn as [Hn1 Hn].
    destruct (is_dec_tok _ Hv) as [Hv1 Hv2].
    unfold io_line. rewrite strip_kv by (auto using lower_no_ws).
    assert (E : n ++ 58 :: 32 :: v <> []) by (destruct n; [congruence|discriminate]).
    destruct (n ++ 58 :: 32 :: v) eqn:En; [congruence|]. rewrite <- En. clear E En.
    unfold colon_sp. rewrite split_seq_two.
    + now rewrite (parse_int_dec _ Hv).
    + now apply lower_no_colon.
    + destruct v; [discriminate|]. now apply digits_no_colon.
  - unfold junk_ok in H. apply andb_true_iff in H as [H1 _]. apply negb_true_iff in H1.
    unfold io_line. assert (C : contains 58 (strip (j ++ [10])) = false).
    { apply contains_strip_false. rewrite contains_app, H1. reflexivity. }
    destruct (strip (j ++ [10])) as [|c l] eqn:E; [reflexivity|].
    unfold colon_sp. now rewrite (split_seq_nosep _ 58 32 C).
  - apply andb_true_iff in H as [Hn Hv]. pose proof (alpha_not_int _ Hv) as Hp.
    apply name_ok_inv in Hn as [Hn1 Hn]. apply name_ok_inv in Hv as [Hv1 Hv].
    unfold io_line. rewrite strip_kv by (auto using lower_no_ws).
    assert (E : n ++ 58 :: 32 :: v <> []) by (destruct n; [congruence|discriminate]).
    destruct (n ++ 58 :: 32 :: v) eqn:En; [congruence|]. rewrite <- En. clear E En.
    unfold colon_sp. rewrite split_seq_two by (now apply lower_no_colon).
    now rewrite Hp.
Qed.

Lemma io_fold_items items : forall d,
  forallb ioitem_ok items = true ->
  io_fold false d (map k_ioline items) = Val (fold_left io_step items d).
Proof.
  induction items as [|i items IH]; intros d H; [reflexivity|].
  cbn [forallb] in H. apply andb_true_iff in H as [Hi Hr].
  cbn [map io_fold fold_left]. rewrite (io_line_item d i Hi). cbn [obind]. now apply IH.
Qed.

Lemma assoc_get_set k n v d :
  assoc_get k (assoc_set n v d) = if beqb k n then Some v else assoc_get k d.
Proof.
  induction d as [|[k' v'] d IH]; cbn [assoc_set assoc_get].
  - reflexivity.
  - destruct (beqb n k') eqn:E.
    + apply beqb_eq in E. subst k'. cbn [assoc_get]. destruct (beqb k n); reflexivity.
    + cbn [assoc_get]. rewrite IH. destruct (beqb k k') eqn:E2; [|reflexivity].
      apply beqb_eq in E2. subst k'. assert (beqb k n = false) as ->; [|reflexivity].
      destruct (beqb k n) eqn:E3; [|reflexivity]. apply beqb_eq in E3. subst.
      rewrite beqb_refl in E. discriminate.
Qed.

Lemma assoc_set_nonempty n v d : assoc_set n v d <> [].
Proof. destruct d as [|[k' v'] d]; cbn [assoc_set]; [discriminate|]. destruct (beqb n k'); discriminate. Qed.

Lemma fold_get items : forall d k,
  assoc_get k (fold_left io_step items d) = io_last k items (assoc_get k d).
Proof.
  induction items as [|i items IH]; intros d k; [reflexivity|].
  cbn [fold_left io_last]. rewrite IH. f_equal.
  destruct i as [n v|j|n v]; cbn [io_step io_upd]; try reflexivity. apply assoc_get_set.
Qed.

Lemma fold_empty items : forall d,
  (fold_left io_step items d = [] <-> d = [] /\ has_kv items = false).
Proof.
  induction items as [|i items IH]; intros d.
  - cbn. tauto.
  - cbn [fold_left]. rewrite IH. unfold has_kv. cbn [existsb].
    destruct i as [n v|j|n v]; cbn [io_step is_kv orb].
    + split; [intros [H _]; now apply assoc_set_nonempty in H|intros [_ H]; discriminate].
    + tauto.
    + tauto.
Qed.

Theorem io_roundtrip items :
  forallb ioitem_ok items = true -> io_counters false (k_io items) = spec_io items.
Proof.
  intros H. unfold io_counters, spec_io.
  rewrite (lines_keep_k_io items H), (io_fold_items items [] H). cbn [obind].
  destruct (fold_left io_step items []) as [|p d'] eqn:E.
  - apply fold_empty in E as [_ E]. now rewrite E.
  - assert (Hk : has_kv items = true).
    { destruct (has_kv items) eqn:K; [reflexivity|].
      assert (fold_left io_step items [] = []) as X by (apply fold_empty; auto).
      rewrite X in E. discriminate. }
    rewrite Hk, <- E. apply mapM_ext. intros k. now rewrite fold_get.
Qed.

(* before the repair: a malformed "name: letters" line made the call fail
   although all six counters are present *)
Definition io_witness : list ioitem :=
  [KV (bs "rchar") (bs "1"); KV (bs "wchar") (bs "2"); KV (bs "syscr") (bs "3");
   KV (bs "syscw") (bs "4"); KV (bs "read_bytes") (bs "5"); KV (bs "write_bytes") (bs "6");
   BadKV (bs "foo") (bs "bar")].
Theorem io_strict_refuted :
  exists items, forallb ioitem_ok items = true /\ spec_io items = Val [3; 4; 5; 6; 1; 2]
                /\ io_counters true (k_io items) = Exc ValueError.
Proof. exists io_witness. repeat split; vm_compute; reflexivity. Qed.

Example io_nonvacuous :
  let items := [KV (bs "rchar") (bs "1"); KV (bs "wchar") (bs "2"); Junk []; KV (bs "syscr") (bs "3");
                KV (bs "syscw") (bs "4"); BadKV (bs "foo") (bs "bar"); KV (bs "read_bytes") (bs "5");
                KV (bs "write_bytes") (bs "18446744073709551615"); KV (bs "rchar") (bs "9");
                KV (bs "cancelled_write_bytes") (bs "0")] in
  forallb ioitem_ok items = true /\ spec_io items = Val [3; 4; 5; 18446744073709551615; 9; 2].
Proof. vm_compute. auto. Qed.
