From PV Require Import Base.Bits C14.Spec.

(* ------------------------------------------------------------ mode table *)
Lemma mode_table flags :
  0 <= flags -> file_flags_to_mode flags = of_option KeyError (spec_mode flags).
Proof.
  intros Hf. unfold file_flags_to_mode, spec_mode, has_append, O_APPEND.
  change 3 with (2 ^ 2 - 1). rewrite land_ones_mod by lia. change (2 ^ 2) with 4.
  change 1024 with (2 ^ 10). rewrite land_pow2_eqb0, negb_involutive by lia.
  rewrite testbit_odd_div by lia.
  destruct (flags mod 4 =? 0); [reflexivity|].
  destruct (flags mod 4 =? 1); [reflexivity|].
  destruct (flags mod 4 =? 2); reflexivity.
Qed.

Lemma spec_mode_none flags : 0 <= flags -> (spec_mode flags = None <-> flags mod 4 = 3).
Proof.
  intros Hf. unfold spec_mode.
  assert (0 <= flags mod 4 < 4) by (apply Z.mod_pos_bound; lia).
  destruct (Z.eqb_spec (flags mod 4) 0); [split; [discriminate|lia]|].
  destruct (Z.eqb_spec (flags mod 4) 1); [split; [discriminate|lia]|].
  destruct (Z.eqb_spec (flags mod 4) 2); [split; [discriminate|lia]|].
  split; auto. lia.
Qed.

(* --------------------------------------------------------------- fdinfo *)
Lemma oct_val_nonneg l : all_oct l = true -> 0 <= oct_val l.
Proof.
  unfold oct_val. assert (G : forall a, 0 <= a -> all_oct l = true -> 0 <= fold_left oct_step l a).
  { induction l as [|c l IH]; intros a Ha H; simpl; auto.
    simpl in H. apply andb_true_iff in H as [Hc Hl]. apply IH; auto.
    unfold oct_step, is_oct in *. lia. }
  apply G. lia.
Qed.

Lemma parse_fdinfo_printed e :
  wf_kfd e = true ->
  parse_fdinfo (k_fdinfo e) = Val (dec_val (k_pos e), oct_val (k_flags e)).
Proof.
  unfold wf_kfd. intros H.
  apply andb_true_iff in H as [H Hne]. apply andb_true_iff in H as [H Hfl].
  apply andb_true_iff in H as [_ Hpos].
  destruct (is_dec_tok _ Hpos) as [Hp1 Hp2].
  pose proof (all_oct_no_ws _ Hfl) as Hf2.
  unfold parse_fdinfo, k_fdinfo.
  set (l1 := bs "pos:" ++ 9 :: k_pos e).
  set (l2 := bs "flags:" ++ 9 :: 48 :: k_flags e).
  assert (E : bs "pos:" ++ 9 :: k_pos e ++ 10 :: bs "flags:" ++ 9 :: 48 :: k_flags e ++ 10 :: k_extra e
              = l1 ++ 10 :: (l2 ++ 10 :: k_extra e)).
  { unfold l1, l2. rewrite <- !app_assoc. reflexivity. }
  rewrite E. clear E.
  assert (C1 : contains 10 l1 = false).
  { unfold l1. rewrite contains_app, contains_cons. cbn [bs contains existsb].
    rewrite (no_ws_contains 10 _ eq_refl Hp2). reflexivity. }
  assert (C2 : contains 10 l2 = false).
  { unfold l2. rewrite contains_app, !contains_cons. cbn [bs contains existsb].
    rewrite (no_ws_contains 10 _ eq_refl Hf2). reflexivity. }
  rewrite lines_keep_line by exact C1. rewrite lines_keep_line by exact C2.
  cbn [nth].
  (* first line *)
  assert (S1 : split_ws (l1 ++ [10]) = [bs "pos:"; k_pos e]).
  { unfold l1. rewrite <- app_assoc. change ((9 :: k_pos e) ++ [10]) with (9 :: (k_pos e ++ [10])).
    rewrite split_ws_token_sep by (try reflexivity; discriminate).
    rewrite split_ws_token_sep by (auto). reflexivity. }
  assert (S2 : split_ws (l2 ++ [10]) = [bs "flags:"; 48 :: k_flags e]).
  { unfold l2. rewrite <- app_assoc.
    change ((9 :: 48 :: k_flags e) ++ [10]) with (9 :: ((48 :: k_flags e) ++ [10])).
    rewrite split_ws_token_sep by (try reflexivity; discriminate).
    rewrite split_ws_token_sep; [reflexivity|discriminate| |reflexivity].
    cbn [no_ws forallb]. change (forallb _ (k_flags e)) with (no_ws (k_flags e)). now rewrite Hf2. }
  unfold nth_tok. rewrite S1, S2. cbn [nth_error of_option obind].
  unfold py_int. rewrite (parse_int_dec _ Hpos). cbn [of_option obind].
  rewrite (parse_oct_0 _ Hfl). reflexivity.
Qed.

(* ----------------------------------------------------------- open_files *)
Notation has_closing := has_closing_b.
Notation no_mode3 := no_mode3_b.

Lemma scan_one_spec e :
  wf_kfd e = true ->
  scan_one (to_model e) =
    match k_closing e with
    | ClosedBeforeReadlink => Val HitEnoent
    | ClosedBeforeFdinfo | ClosedDuringFdinfoRead =>
        if prefixb [47] (k_path e) && k_isreg e then Val HitEnoent else Val Skip
    | StillOpen =>
        if listed e then
          match spec_row e with Some row => Val (Row row) | None => Exc KeyError end
        else Val Skip
    end.
Proof.
  intros Hwf. pose proof (parse_fdinfo_printed e Hwf) as Hp.
  unfold wf_kfd in Hwf.
  apply andb_true_iff in Hwf as [Hwf _]. apply andb_true_iff in Hwf as [Hwf Hfl].
  apply andb_true_iff in Hwf as [Hfd _].
  unfold scan_one, to_model, listed, spec_row, k_path. cbn [fd_link fd_isfile fd_info fd_name].
  destruct (k_closing e).
  - destruct (prefixb [47] (readlink_clean (k_raw e) (k_exists_cut e))); [|reflexivity].
    destruct (k_isreg e); cbn [andb]; [|reflexivity].
    rewrite Hp. cbn [obind]. rewrite mode_table by (now apply oct_val_nonneg).
    destruct (spec_mode (oct_val (k_flags e))); cbn [of_option obind]; [|reflexivity].
    unfold py_int. rewrite (parse_int_dec _ Hfd). reflexivity.
  - reflexivity.
  - destruct (prefixb [47] (readlink_clean (k_raw e) (k_exists_cut e))); [|reflexivity].
    destruct (k_isreg e); reflexivity.
  - destruct (prefixb [47] (readlink_clean (k_raw e) (k_exists_cut e))); [|reflexivity].
    destruct (k_isreg e); reflexivity.
Qed.

Lemma scan_spec es :
  forallb wf_kfd es = true -> no_mode3 es = true ->
  exists hit, scan (map to_model es) = Val (spec_rows es, hit)
              /\ (hit = true -> has_closing es = true).
Proof.
  induction es as [|e es IH]; intros Hwf Hm.
  - exists false. split; [reflexivity|discriminate].
  - cbn [forallb] in Hwf. apply andb_true_iff in Hwf as [He Hes].
    unfold no_mode3_b in Hm. cbn [forallb] in Hm. apply andb_true_iff in Hm as [Hme Hms].
    destruct (IH Hes Hms) as [hit [Hscan Hhit]].
    cbn [map scan]. rewrite (scan_one_spec e He). rewrite Hscan.
    unfold has_closing_b in *. cbn [spec_rows existsb].
    destruct (k_closing e) eqn:Ec.
    + destruct (listed e) eqn:El.
      * cbn [andb negb] in Hme. apply negb_true_iff in Hme.
        unfold accmode3 in Hme. apply Z.eqb_neq in Hme.
        unfold spec_row in *.
        destruct (spec_mode (oct_val (k_flags e))) eqn:Em.
        -- exists hit. split; [reflexivity|]. intros Hh. rewrite (Hhit Hh). apply orb_true_r.
        -- exfalso. apply Hme. apply spec_mode_none; [|exact Em].
           apply oct_val_nonneg. unfold wf_kfd in He.
           apply andb_true_iff in He as [He _]. now apply andb_true_iff in He as [_ He].
      * exists hit. split; [reflexivity|]. intros Hh. rewrite (Hhit Hh). apply orb_true_r.
    + assert (listed e = false) as -> by (unfold listed; now rewrite Ec).
      exists true. split; reflexivity.
    + assert (listed e = false) as -> by (unfold listed; now rewrite Ec).
      destruct (prefixb [47] (k_path e) && k_isreg e).
      * exists true. split; reflexivity.
      * exists hit. split; [reflexivity|]. intros Hh. reflexivity.
    + assert (listed e = false) as -> by (unfold listed; now rewrite Ec).
      destruct (prefixb [47] (k_path e) && k_isreg e).
      * exists true. split; reflexivity.
      * exists hit. split; [reflexivity|]. intros Hh. reflexivity.
Qed.

Theorem open_files_exact es alive :
  forallb wf_kfd es = true -> no_mode3 es = true ->
  alive = true \/ has_closing es = false ->
  open_files (map to_model es) alive = Val (spec_rows es).
Proof.
  intros Hwf Hm Ha. destruct (scan_spec es Hwf Hm) as [hit [Hs Hh]].
  unfold open_files. rewrite Hs. cbn [obind].
  destruct hit; [|reflexivity].
  destruct Ha as [->| Hc]; [reflexivity|]. rewrite (Hh eq_refl) in Hc. discriminate.
Qed.

Theorem open_files_total es alive :
  forallb wf_kfd es = true -> no_mode3 es = true ->
  open_files (map to_model es) alive = Val (spec_rows es)
  \/ (alive = false /\ has_closing es = true /\
      open_files (map to_model es) alive = Exc NoSuchProcess).
Proof.
  intros Hwf Hm. destruct (scan_spec es Hwf Hm) as [hit [Hs Hh]].
  unfold open_files. rewrite Hs. cbn [obind].
  destruct hit; [|left; reflexivity].
  destruct alive; [left; reflexivity|]. right. auto.
Qed.

(* the descriptor with access mode 3 (O_PATH-less "ioctl only" open) *)
Definition mode3_witness : kfd :=
  {| k_fd := bs "3"; k_raw := bs "/tmp/f"; k_exists_cut := false; k_isreg := true;
     k_pos := bs "0"; k_flags := bs "100003"; k_extra := []; k_closing := StillOpen |}.

Theorem open_files_mode3_refuted :
  exists es, forallb wf_kfd es = true /\ open_files (map to_model es) true = Exc KeyError.
Proof. exists [mode3_witness]. split; vm_compute; reflexivity. Qed.

Theorem num_fds_counts_all es : num_fds (map to_model es) = Z.of_nat (length es).
Proof. unfold num_fds. now rewrite map_length. Qed.

Example open_files_nonvacuous :
  let es := [ {| k_fd := bs "0"; k_raw := bs "/dev/null"; k_exists_cut := false; k_isreg := false;
                 k_pos := bs "0"; k_flags := bs "100002"; k_extra := []; k_closing := StillOpen |};
              {| k_fd := bs "12"; k_raw := bs "/a b (deleted)"; k_exists_cut := false; k_isreg := true;
                 k_pos := bs "18446744073709551615"; k_flags := bs "102001"; k_extra := bs "mnt_id: 5";
                 k_closing := StillOpen |};
              {| k_fd := bs "5"; k_raw := bs "/x"; k_exists_cut := false; k_isreg := true;
                 k_pos := bs "7"; k_flags := bs "2"; k_extra := []; k_closing := ClosedBeforeFdinfo |} ] in
  forallb wf_kfd es = true /\ no_mode3 es = true /\
  map (fun r => (r_path r, r_fd r, r_pos r, r_mode r)) (spec_rows es)
  = [(bs "/a b", 12, 18446744073709551615, Ma)].
Proof. vm_compute. auto. Qed.
