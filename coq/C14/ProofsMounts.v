From PV Require Import C14.Mounts C14.Proofs.

Lemma mounts_frame : forall strict m m', m_bound m = m_bound m' ->
  proc_open_files m = proc_open_files m' /\ proc_num_fds m = proc_num_fds m'
  /\ proc_io_counters strict m = proc_io_counters strict m'.
Proof.
  intros strict m m' H. unfold proc_open_files, proc_num_fds, proc_io_counters.
  rewrite H. repeat split.
Qed.

Lemma mounts_exact : forall es alive io cur,
  forallb wf_kfd es = true -> no_mode3 es = true ->
  alive = true \/ has_closing es = false ->
  proc_open_files {| m_bound := {| v_fds := map to_model es; v_alive := alive; v_io := io |};
                     m_current := cur |} = Val (spec_rows es).
Proof.
  intros es alive io cur Hwf H3 Hc. unfold proc_open_files. cbn [m_bound v_fds v_alive].
  apply open_files_exact; assumption.
Qed.
