(* Mini-languages for two more pieces of psutil that Process.open_files() is built on, translated
   from the CURRENT source on every run by props/C14.py (gen_tables), failing closed:
   - psutil/_pslinux.py:readlink()  ->  [rprog]
   - psutil/_common.py:isfile_strict() / path_exists_strict()  ->  [strictfn] (which exception
     classes are re-raised, which mean False, what the success branch returns).
   ProofsGen.v proves the translated pieces equal to what the hand-written model assumes.
   No proofs here. *)
From PV Require Export C14.Model.

(* ------------------------------------------------ readlink() *)
Inductive rstmt :=
| RAssert                                        (* assert isinstance(path, str), path *)
| ROsReadlink                                    (* path = os.readlink(path) *)
| RSplitFirst (sep : bytes)                      (* path = path.split(sep)[0] *)
| RIfSuffixNotExists (sfx : bytes) (cut : nat).  (* if path.endswith(sfx) and not path_exists_strict(path): path = path[:-cut] *)
Definition rprog := list rstmt.

(* [raw] = what os.readlink returns; [ex] = what path_exists_strict answers for the NUL-cut value *)
Definition rstep (raw : bytes) (ex : bool) (st : outcome (option bytes)) (s : rstmt) : outcome (option bytes) :=
  do cur <- st;
  match s, cur with
  | RAssert, _ => Val cur
  | ROsReadlink, _ => Val (Some raw)
  | _, None => OutOfModel                        (* the value would still be the /proc/<pid>/fd/<n> path *)
  | RSplitFirst [b], Some p => Val (Some (hd [] (split_on b p)))
  | RSplitFirst _, Some _ => OutOfModel
  | RIfSuffixNotExists _ O, Some _ => OutOfModel (* path[:-0] is the empty string *)
  | RIfSuffixNotExists sfx cut, Some p =>
      Val (Some (if suffixb sfx p && negb ex then firstn (length p - cut) p else p))
  end.
Definition run_readlink (p : rprog) (raw : bytes) (ex : bool) : outcome bytes :=
  do r <- fold_left (rstep raw ex) p (Val None);
  match r with Some v => Val v | None => OutOfModel end.

(* ------------------------------------------------ isfile_strict / path_exists_strict *)
Inductive errclass := EPerm | ENoEnt | ENotDir | ENameTooLong | ELoop | ESrch | EOtherOS.
Inductive stat_res := StOk (isreg : bool) | StErr (e : errclass).
Inductive hact := HReraise | HFalse.
Inductive eact := ETrue | EIsReg.
Record strictfn := { sf_handlers : list (list bytes * hact); sf_else : eact }.

(* does `except <cls>` catch the OSError subclass raised for [e]? *)
Definition catches (cls : bytes) (e : errclass) : bool :=
  beqb cls (bs "OSError") || beqb cls (bs "Exception") || beqb cls (bs "BaseException")
  || beqb cls (bs "EnvironmentError") || beqb cls (bs "IOError")
  || match e with
     | EPerm => beqb cls (bs "PermissionError")
     | ENoEnt => beqb cls (bs "FileNotFoundError")
     | ENotDir => beqb cls (bs "NotADirectoryError")
     | ESrch => beqb cls (bs "ProcessLookupError")
     | ENameTooLong | ELoop | EOtherOS => false
     end.

Inductive strict_ans := SDenied | SBool (b : bool) | SEscapes.
Fixpoint first_handler (hs : list (list bytes * hact)) (e : errclass) : option hact :=
  match hs with
  | [] => None
  | (clss, a) :: r => if existsb (fun c => catches c e) clss then Some a else first_handler r e
  end.
Definition strict_answer (f : strictfn) (s : stat_res) : strict_ans :=
  match s with
  | StOk isreg => SBool (match sf_else f with ETrue => true | EIsReg => isreg end)
  | StErr e => match first_handler (sf_handlers f) e with
               | Some HReraise => match e with EPerm => SDenied | _ => SEscapes end
               | Some HFalse => SBool false
               | None => SEscapes
               end
  end.
