(* A small statement language for string-building functions of the shape of
   psutil/_pslinux.py:file_flags_to_mode.  props/C14.py (gen_tables) translates the
   CURRENT source of that function into a [prog] (coq/Gen/C14_Tables.v), failing closed on any
   statement it does not know; ProofsGen.v proves the translated program equal to the
   hand-written model on every flag word.  No proofs here. *)
From PV Require Export Base.Dec.

(* constant integer expressions: literals and os.O_* names (resolved by the translator with
   the values of the Linux ABI) combined with | *)
Inductive cexpr := CConst (z : Z) | COr (a b : cexpr).
Fixpoint ceval (c : cexpr) : Z :=
  match c with CConst z => z | COr a b => Z.lor (ceval a) (ceval b) end.

Inductive mstmt :=
| SLookup (tbl : list (cexpr * bytes)) (mask : cexpr)     (* mode = {k: v, ...}[flags & mask] *)
| SReplace (guard : option cexpr) (old new : bytes) (cnt : option nat).
    (* [if flags & guard:] mode = mode.replace(old, new[, cnt]) *)
Definition prog := list mstmt.

(* Python str.replace for a non-empty [old]: leftmost non-overlapping occurrences, at most cnt *)
Definition cnt_allows (c : option nat) : bool := match c with Some O => false | _ => true end.
Definition cnt_dec (c : option nat) : option nat := match c with Some (S k) => Some k | x => x end.
Fixpoint py_replace (old new : bytes) (cnt : option nat) (skip : nat) (s : bytes) : bytes :=
  match s with
  | [] => []
  | c :: r =>
    match skip with
    | S k => py_replace old new cnt k r
    | O => if cnt_allows cnt && prefixb old s
           then new ++ py_replace old new (cnt_dec cnt) (length old - 1) r
           else c :: py_replace old new cnt 0 r
    end
  end.

Fixpoint tbl_get (k : Z) (t : list (cexpr * bytes)) : option bytes :=
  match t with
  | [] => None
  | (c, v) :: r => match tbl_get k r with            (* dict display: the last duplicate key wins *)
                   | Some v' => Some v'
                   | None => if ceval c =? k then Some v else None
                   end
  end.

(* state: Val None = [mode] not yet bound (a use would be UnboundLocalError: OutOfModel) *)
Definition step (flags : Z) (st : outcome (option bytes)) (s : mstmt) : outcome (option bytes) :=
  do cur <- st;
  match s with
  | SLookup t m => omap Some (of_option KeyError (tbl_get (Z.land flags (ceval m)) t))
  | SReplace g old new cnt =>
    match cur, old with
    | None, _ | _, [] => OutOfModel
    | Some cur, _ =>
      let go := match g with None => true | Some c => negb (Z.land flags (ceval c) =? 0) end in
      Val (Some (if go then py_replace old new cnt 0 cur else cur))
    end
  end.

Definition run_prog (p : prog) (flags : Z) : outcome bytes :=
  do r <- fold_left (step flags) p (Val None);
  match r with Some m => Val m | None => OutOfModel end.

(* every mask / guard of the program, or-ed together *)
Definition stmt_mask (s : mstmt) : Z :=
  match s with
  | SLookup _ m => ceval m
  | SReplace (Some g) _ _ _ => ceval g
  | SReplace None _ _ _ => 0
  end.
Definition prog_mask (p : prog) : Z := fold_right (fun s a => Z.lor (stmt_mask s) a) 0 p.
