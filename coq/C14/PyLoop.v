(* A small statement language for the per-line body of Process.io_counters
   (psutil/_pslinux.py).  props/C14.py (gen_tables) translates the CURRENT source of the
   `for line in f:` body into a [lprog] (coq/Gen/C14_Tables.v: gen_io_loop), failing closed on
   any statement it does not know; ProofsGen.v proves the translated body equal to the
   hand-written model [io_line] on every line and every dictionary.  No proofs here. *)
From PV Require Export C14.Model.

Inductive lstmt :=
| LStrip                                   (* line = line.strip() *)
| LIfLine (body : list lstmt)              (* if line: body *)
| LTry (body orelse : list lstmt)          (* try: body / except ValueError: continue / else: orelse *)
| LSplit2 (sep : bytes)                    (* name, value = line.split(sep) *)
| LIntValue                                (* value = int(value) *)
| LStore (conv : bool).                    (* fields[name] = value   |   fields[name] = int(value) *)

(* [value] is a bytes object after the split and an int after value = int(value) *)
Inductive pyval := VUnbound | VBytes (b : bytes) | VInt (z : Z).
Record lstate := { l_line : bytes; l_name : option bytes; l_value : pyval; l_fields : list (bytes * Z) }.

Inductive lres :=
| Normal (s : lstate)          (* fell through *)
| Continue (s : lstate)        (* `continue`: next line *)
| RaiseVE                      (* ValueError leaves the function *)
| Unmodelled.                  (* NameError / a non-int stored / ...: outside the model *)

Definition set_line s l := {| l_line := l; l_name := l_name s; l_value := l_value s; l_fields := l_fields s |}.
Definition set_nv s n v := {| l_line := l_line s; l_name := Some n; l_value := v; l_fields := l_fields s |}.
Definition set_value s v := {| l_line := l_line s; l_name := l_name s; l_value := v; l_fields := l_fields s |}.
Definition set_fields s f := {| l_line := l_line s; l_name := l_name s; l_value := l_value s; l_fields := f |}.

Fixpoint exec (st : lstmt) (s : lstate) {struct st} : lres :=
  let run := fix run (l : list lstmt) (s : lstate) {struct l} : lres :=
    match l with
    | [] => Normal s
    | x :: r => match exec x s with Normal s' => run r s' | other => other end
    end in
  match st with
  | LStrip => Normal (set_line s (strip (l_line s)))
  | LIfLine body => match l_line s with [] => Normal s | _ => run body s end
  | LTry body orelse =>
      match run body s with
      | Normal s' => run orelse s'            (* an exception of the else clause is not handled here *)
      | RaiseVE => Continue s                 (* except ValueError: continue *)
      | other => other
      end
  | LSplit2 sep =>
      match sep with
      | [] => Unmodelled                      (* bytes.split(b'') raises ValueError('empty separator') at once *)
      | _ => match split_seq sep (l_line s) with
             | [n; v] => Normal (set_nv s n (VBytes v))
             | _ => RaiseVE                   (* too few / too many values to unpack *)
             end
      end
  | LIntValue =>
      match l_value s with
      | VBytes b => match parse_int b with Some z => Normal (set_value s (VInt z)) | None => RaiseVE end
      | VInt z => Normal s
      | VUnbound => Unmodelled
      end
  | LStore conv =>
      match l_name s with
      | None => Unmodelled
      | Some n =>
        match l_value s, conv with
        | VInt z, _ => Normal (set_fields s (assoc_set n z (l_fields s)))
        | VBytes b, true => match parse_int b with
                            | Some z => Normal (set_fields s (assoc_set n z (l_fields s)))
                            | None => RaiseVE end
        | VBytes _, false => Unmodelled       (* a bytes object would be stored *)
        | VUnbound, _ => Unmodelled
        end
      end
  end.

Definition lprog := list lstmt.
Fixpoint run_lprog (l : lprog) (s : lstate) : lres :=
  match l with
  | [] => Normal s
  | x :: r => match exec x s with Normal s' => run_lprog r s' | other => other end
  end.

(* one iteration of `for line in f:` *)
Definition io_line_gen (p : lprog) (d : list (bytes * Z)) (line : bytes) : outcome (list (bytes * Z)) :=
  match run_lprog p {| l_line := line; l_name := None; l_value := VUnbound; l_fields := d |} with
  | Normal s | Continue s => Val (l_fields s)
  | RaiseVE => Exc ValueError
  | Unmodelled => OutOfModel
  end.
