(* Entry points evaluated by the correspondence harness (props/C14.py). *)
From PV Require Export C14.Spec C14.Mounts.

Definition jv_mode (m : fmode) : jv := JB (fmode_bytes m).
Definition jv_row (r : ofrow) : jv :=
  JL [JB (r_path r); JZ (r_fd r); JZ (r_pos r); jv_mode (r_mode r); JZ (r_flags r)].
Definition jv_rows (rs : list ofrow) : jv := JL (map jv_row rs).

(* a kernel-shaped descriptor table: printed fdinfo files, model answer, spec answer *)
Definition run_table (es : list kfd) (alive : bool) : jv :=
  JL [ JL (map (fun e => JB (k_fdinfo e)) es);
       jv_outcome jv_rows (open_files (map to_model es) alive);
       (if forallb wf_kfd es && no_mode3_b es
        then (if alive || negb (has_closing_b es) then JC "Val" [jv_rows (spec_rows es)] else jnone)
        else jnone);
       JZ (num_fds (map to_model es)) ].

(* arbitrary (possibly malformed) table: model answer only *)
Definition run_raw (ents : list fdent) (alive : bool) : jv :=
  JL [ jv_outcome jv_rows (open_files ents alive); JZ (num_fds ents) ].

Definition run_mode (flags : Z) : jv :=
  JL [ jv_outcome jv_mode (file_flags_to_mode flags); jopt jv_mode (spec_mode flags) ].

Definition jv_zs (l : list Z) : jv := JL (map JZ l).
Definition run_io (strict : bool) (items : list ioitem) : jv :=
  JL [ JB (k_io items); jv_outcome jv_zs (io_counters strict (k_io items));
       (if forallb ioitem_ok items then jv_outcome jv_zs (spec_io items) else jnone) ].
Definition run_io_raw (strict : bool) (content : bytes) : jv :=
  JL [ jv_outcome jv_zs (io_counters strict content) ].

(* PROCFS_PATH re-assigned after the Process object was created: the object keeps reading the
   mount it is bound to; [dpos]/[dflags] describe the fdinfo files of the same PID in the other mount *)
Definition decoy_of (dpos dflags : bytes) (e : kfd) : fdent :=
  to_model (Build_kfd (k_fd e) (k_raw e) (k_exists_cut e) (k_isreg e) dpos dflags (k_extra e) StillOpen).
Definition run_table_moved (es : list kfd) (alive : bool) (dpos dflags : bytes) : jv :=
  let m := {| m_bound := {| v_fds := map to_model es; v_alive := alive; v_io := [] |};
              m_current := {| v_fds := map (decoy_of dpos dflags) es; v_alive := true; v_io := [] |} |} in
  JL [ JL (map (fun e => JB (k_fdinfo e)) es);
       jv_outcome jv_rows (proc_open_files m);
       (if forallb wf_kfd es && no_mode3_b es
        then (if alive || negb (has_closing_b es) then JC "Val" [jv_rows (spec_rows es)] else jnone)
        else jnone);
       JZ (proc_num_fds m) ].
Definition run_io_moved (strict : bool) (items : list ioitem) (decoy : bytes) : jv :=
  let m := {| m_bound := {| v_fds := []; v_alive := true; v_io := k_io items |};
              m_current := {| v_fds := []; v_alive := true; v_io := decoy |} |} in
  JL [ JB (k_io items); jv_outcome jv_zs (proc_io_counters strict m);
       (if forallb ioitem_ok items then jv_outcome jv_zs (spec_io items) else jnone) ].

(* live cases: real descriptors of the worker, opened with open(2) flags [req]; the harness predicts the
   kernel's flag word as text, Coq checks that text against [k_open_flags] (third component) *)
Definition run_live (es : list (kfd * Z)) : jv :=
  let ks := map fst es in
  JL [ JL (map (fun e => JB (k_fdinfo e)) ks);
       jv_outcome jv_rows (open_files (map to_model ks) true);
       (if forallb wf_kfd ks && no_mode3_b ks then JC "Val" [jv_rows (spec_rows ks)] else jnone);
       JL (map (fun er => JB (if oct_val (k_flags (fst er)) =? k_open_flags (snd er) true then bs "ok" else bs "BAD")) es) ].
