(* C14 -- model of psutil/_pslinux.py: file_flags_to_mode, readlink,
   Process.open_files, Process.num_fds, Process.io_counters
   (transcribed from the code; the wrap_exceptions decorator is folded in:
   PermissionError -> AccessDenied, FileNotFoundError/ProcessLookupError ->
   NoSuchProcess). *)
From PV Require Export Base.Dec.

(* ------------------------------------------------ file_flags_to_mode *)
Inductive fmode := Mr | Mw | Ma | Mrp | Map.
Definition fmode_bytes (m : fmode) : bytes :=
  match m with Mr => bs "r" | Mw => bs "w" | Ma => bs "a" | Mrp => bs "r+" | Map => bs "a+" end.

Definition O_APPEND : Z := 1024.
Definition has_append (flags : Z) : bool := negb (Z.land flags O_APPEND =? 0).

(* modes_map[flags & 3]; 'w'->'a' once when O_APPEND; 'w+' -> 'r+' *)
Definition file_flags_to_mode (flags : Z) : outcome fmode :=
  let acc := Z.land flags 3 in
  if acc =? 0 then Val Mr
  else if acc =? 1 then Val (if has_append flags then Ma else Mw)
  else if acc =? 2 then Val (if has_append flags then Map else Mrp)
  else Exc KeyError.

(* ------------------------------------------------ readlink() cleanup *)
Definition deleted_sfx : bytes := bs " (deleted)".
Definition readlink_clean (raw : bytes) (exists_cut : bool) : bytes :=
  let p := hd [] (split_on 0 raw) in
  if suffixb deleted_sfx p && negb exists_cut
  then firstn (length p - 10) p else p.

(* ------------------------------------------------ open_files *)
Inductive link_res :=
| LTarget (raw : bytes) (exists_cut : bool)  (* os.readlink value; path_exists_strict answer *)
| LENOENT | LESRCH | LEINVAL | LENAMETOOLONG | LEACCES | LEIO.
Inductive isfile_res := IsReg | NotReg | StatDenied.
(* FRead*: the fdinfo file opens but the first read fails (the kernel generates the
   content at read time: ENOENT when the descriptor was closed meanwhile, ESRCH when
   the process is gone) *)
Inductive fdinfo_res := FContent (b : bytes) | FENOENT | FEACCES | FReadENOENT | FReadESRCH.

Record fdent := { fd_name : bytes; fd_link : link_res; fd_isfile : isfile_res; fd_info : fdinfo_res }.
Record ofrow := { r_path : bytes; r_fd : Z; r_pos : Z; r_mode : fmode; r_flags : Z }.

Definition nth_tok (n : nat) (l : bytes) : outcome bytes :=
  of_option IndexError (nth_error (split_ws l) n).

Definition parse_fdinfo (content : bytes) : outcome (Z * Z) :=
  let ls := lines_keep content in
  do t1 <- nth_tok 1 (nth 0 ls []);
  do pos <- py_int t1;
  do t2 <- nth_tok 1 (nth 1 ls []);
  do fl <- of_option ValueError (parse_oct t2);
  Val (pos, fl).

Inductive ent_res := Row (r : ofrow) | Skip | HitEnoent.

Definition scan_one (e : fdent) : outcome ent_res :=
  match fd_link e with
  | LENOENT | LESRCH => Val HitEnoent
  | LEINVAL | LENAMETOOLONG => Val Skip
  | LEACCES => Exc AccessDenied
  | LEIO => Exc OSError
  | LTarget raw ex =>
    let path := readlink_clean raw ex in
    if prefixb [47] path then
      match fd_isfile e with
      | StatDenied => Exc AccessDenied
      | NotReg => Val Skip
      | IsReg =>
        match fd_info e with
        | FENOENT | FReadENOENT | FReadESRCH => Val HitEnoent
        | FEACCES => Exc AccessDenied
        | FContent c =>
          do pf <- parse_fdinfo c;
          let '(pos, flags) := pf in
          do m <- file_flags_to_mode flags;
          do fd <- py_int (fd_name e);
          Val (Row {| r_path := path; r_fd := fd; r_pos := pos; r_mode := m; r_flags := flags |})
        end
      end
    else Val Skip
  end.

Fixpoint scan (ents : list fdent) : outcome (list ofrow * bool) :=
  match ents with
  | [] => Val ([], false)
  | e :: r =>
    do x <- scan_one e;
    do rest <- scan r;
    let '(rows, hit) := rest in
    Val (match x with
         | Row row => (row :: rows, hit)
         | Skip => (rows, hit)
         | HitEnoent => (rows, true)
         end)
  end.

(* listing : None = the fd directory is gone (ENOENT) *)
Definition open_files (ents : list fdent) (alive : bool) : outcome (list ofrow) :=
  do res <- scan ents;
  let '(rows, hit) := res in
  if hit && negb alive then Exc NoSuchProcess else Val rows.

Definition num_fds (ents : list fdent) : Z := Z.of_nat (length ents).

(* ------------------------------------------------ io_counters *)
Definition colon_sp : bytes := [58; 32].

Fixpoint assoc_set (k : bytes) (v : Z) (d : list (bytes * Z)) : list (bytes * Z) :=
  match d with
  | [] => [(k, v)]
  | (k', v') :: r => if beqb k k' then (k, v) :: r else (k', v') :: assoc_set k v r
  end.
Fixpoint assoc_get (k : bytes) (d : list (bytes * Z)) : option Z :=
  match d with
  | [] => None
  | (k', v') :: r => if beqb k k' then Some v' else assoc_get k r
  end.

(* [strict] = true is the code before the repair (int(value) outside the
   try block: a non-numeric value raises ValueError); false = repaired code,
   where such a line is skipped like any other malformed line. *)
Definition io_line (strict : bool) (d : list (bytes * Z)) (line : bytes) : outcome (list (bytes * Z)) :=
  let l := strip line in
  match l with
  | [] => Val d
  | _ =>
    match split_seq colon_sp l with
    | [name; value] =>
      match parse_int value with
      | Some v => Val (assoc_set name v d)
      | None => if strict then Exc ValueError else Val d
      end
    | _ => Val d
    end
  end.

Fixpoint io_fold (strict : bool) (d : list (bytes * Z)) (ls : list bytes) : outcome (list (bytes * Z)) :=
  match ls with
  | [] => Val d
  | l :: r => do d' <- io_line strict d l; io_fold strict d' r
  end.

Definition io_keys : list bytes :=
  [bs "syscr"; bs "syscw"; bs "read_bytes"; bs "write_bytes"; bs "rchar"; bs "wchar"].

Definition io_counters (strict : bool) (content : bytes) : outcome (list Z) :=
  do d <- io_fold strict [] (lines_keep content);
  match d with
  | [] => Exc RuntimeError
  | _ => mapM (fun k => of_option ValueError (assoc_get k d)) io_keys
  end.
